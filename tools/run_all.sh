#!/bin/sh
# run every claimed check (quick tier by default) in parallel on /repo; print the verdict lines
cd "$(dirname "$0")/.." || exit 2
TIER="${1:-quick}"
for p in $(python3 -c "import json;print(' '.join(c['property_id'] for c in json.load(open('MANIFEST.json'))['checks']))"); do
  ( ./check "$p" --tier "$TIER" > /tmp/runall_$p.out 2>&1; echo "$p rc=$? $(tail -1 /tmp/runall_$p.out | cut -c1-150)" ) &
done
wait
