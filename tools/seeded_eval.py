#!/usr/bin/env python3
"""Re-evaluate every kept seeded change with the current checks (no demo, no test-suite):
   tools/seeded_eval.py [-j N] [pattern]
For each /verif/seeded/<seed>/patch.diff: scratch copy of /repo/openaerostruct under $TMPDIR, patch
applied, every claimed check run with --repo; prints one line per seed and a summary.  With
--update-meta the "checks_final_machinery" entry of each seed's meta.json is rewritten from this run."""
import concurrent.futures as cf
import json
import os
import shutil
import subprocess
import sys
import tempfile

VERIF = os.path.dirname(os.path.dirname(os.path.abspath(__file__)))
man = json.load(open(os.path.join(VERIF, "MANIFEST.json")))
ids = [c["property_id"] for c in man["checks"]]


UPDATE = False


def one(seed):
    tmp = tempfile.mkdtemp(prefix="oas_seeded_")
    try:
        shutil.copytree("/repo/openaerostruct", os.path.join(tmp, "openaerostruct"), ignore=shutil.ignore_patterns("__pycache__", "*.pyc", "examples"))
        subprocess.run("git init -q . && git apply --whitespace=nowarn %s" % os.path.join(VERIF, "seeded", seed, "patch.diff"), shell=True, cwd=tmp, check=True, capture_output=True)
        env = dict(os.environ, OAS_EVIDENCE_DIR=os.path.join(tmp, "ev"))
        det, err = [], []
        lines = {}
        for pid in ids:
            r = subprocess.run([os.path.join(VERIF, "check"), pid, "--repo", tmp], capture_output=True, text=True, env=env, cwd=VERIF)
            if r.returncode == 1:
                det.append(pid)
                lines[pid] = [l[:260] for l in r.stdout.splitlines() if l.startswith("openaerostruct/")][:2]
            elif r.returncode != 0:
                err.append(pid)
        if UPDATE:
            mp = os.path.join(VERIF, "seeded", seed, "meta.json")
            meta = json.load(open(mp))
            meta["checks_final_machinery"] = {"detected_by": det, "first_report_lines": lines, "analysis_errors": err}
            json.dump(meta, open(mp, "w"), indent=1)
        return seed, det, err
    except subprocess.CalledProcessError as e:
        return seed, None, [str(e.stderr)[-200:]]
    finally:
        shutil.rmtree(tmp, ignore_errors=True)


def main():
    j = 3
    global UPDATE
    args = sys.argv[1:]
    if "--update-meta" in args:
        UPDATE = True
        args.remove("--update-meta")
    if args[:1] == ["-j"]:
        j = int(args[1])
        args = args[2:]
    seeds = sorted(d for d in os.listdir(os.path.join(VERIF, "seeded")) if os.path.isfile(os.path.join(VERIF, "seeded", d, "patch.diff")) and (not args or args[0] in d))
    miss = []
    with cf.ThreadPoolExecutor(max_workers=j) as ex:
        for seed, det, err in ex.map(one, seeds):
            print("%-12s %s %s" % (seed, "DETECTED " + ",".join(det) if det else ("PATCH-ERROR" if det is None else "MISSED"), ("(exit 2: %s)" % ",".join(err)) if err else ""), flush=True)
            if not det:
                miss.append(seed)
    print("seeded: %d changes, %d not detected: %s" % (len(seeds), len(miss), miss))


if __name__ == "__main__":
    main()
