#!/bin/bash
# usage: tools/try_patch.sh <patch.diff> <ID> [<ID> ...]   -- run checks against a scratch copy of /repo with the patch applied
P=$(realpath "$1"); shift
T=$(mktemp -d /tmp/trypatch_XXXX)
mkdir -p $T/r && cp -r /repo/openaerostruct $T/r/ && (cd $T/r && git init -q . >/dev/null 2>&1; git apply --whitespace=nowarn "$P") || { echo "patch failed"; rm -rf $T; exit 3; }
for id in "$@"; do
  (cd /verif && OAS_EVIDENCE_DIR=$T/ev ./check $id --repo $T/r 2>&1 | grep -v "^KNOWN-FINDING" | tail -${LINES_OUT:-3} | cut -c1-${WIDTH:-330})
done
rm -rf $T
