import sys,json,glob
for f in sorted(glob.glob('/tmp/seedtest_C*.json')):
    for l in open(f):
        try: d=json.loads(l)
        except Exception: continue
        if sys.argv[1:] and d['pid'] not in sys.argv[1:]: continue
        print(d['pid'],d['k'],'clean',d.get('demo_clean_rc'),'patched',d.get('demo_patched_rc'),'DETECTED',d.get('detected_by'))
        for p,c in d.get('checks',{}).items(): print('    ',p,c['rc'],(c.get('lines') or c.get('err') or [''])[0][:230])
