#!/usr/bin/env python3
"""Re-run every claimed check on the kept behaviour-preserving refactorings (no demo, no tests):
   tools/refac_recheck.py [-j N] [pattern]
For each /verif/refactorings/<id>/patch.diff: scratch copy of /repo/openaerostruct under $TMPDIR, patch applied,
every claimed check with --repo.  Exit 1 of a check = FALSE ALARM; exit 2 = could no longer decide."""
import concurrent.futures as cf
import json
import os
import shutil
import subprocess
import sys
import tempfile

VERIF = os.path.dirname(os.path.dirname(os.path.abspath(__file__)))
man = json.load(open(os.path.join(VERIF, "MANIFEST.json")))
ids = [c["property_id"] for c in man["checks"]]
if os.environ.get("OAS_ONLY_CHECKS"):  # e.g. OAS_ONLY_CHECKS=C06,C19 after editing only those rule modules
    ids = [i for i in ids if i in os.environ["OAS_ONLY_CHECKS"].split(",")]


UPDATE = False


def one(rid):
    tmp = tempfile.mkdtemp(prefix="oas_refac_")
    try:
        shutil.copytree("/repo/openaerostruct", os.path.join(tmp, "openaerostruct"), ignore=shutil.ignore_patterns("__pycache__", "*.pyc", "examples"))
        subprocess.run("git init -q . && git apply --whitespace=nowarn %s" % os.path.join(VERIF, "refactorings", rid, "patch.diff"), shell=True, cwd=tmp, check=True, capture_output=True)
        env = dict(os.environ, OAS_EVIDENCE_DIR=os.path.join(tmp, "ev"))
        alarms, err = [], []
        for pid in ids:
            r = subprocess.run([os.path.join(VERIF, "check"), pid, "--repo", tmp], capture_output=True, text=True, env=env, cwd=VERIF)
            if r.returncode == 1:
                alarms.append("%s: %s" % (pid, [l[:200] for l in r.stdout.splitlines() if l.startswith("openaerostruct/")][:1]))
            elif r.returncode != 0:
                err.append(pid)
        if UPDATE:
            mp = os.path.join(VERIF, "refactorings", rid, "meta.json")
            meta = json.load(open(mp))
            meta["checks_final_machinery"] = {"alarms": alarms, "checks_that_could_not_decide": err}
            json.dump(meta, open(mp, "w"), indent=1)
        return rid, alarms, err
    except subprocess.CalledProcessError as e:
        return rid, None, [str(e.stderr)[-200:]]
    finally:
        shutil.rmtree(tmp, ignore_errors=True)


def main():
    j = 4
    global UPDATE
    args = sys.argv[1:]
    if "--update-meta" in args:
        UPDATE = True
        args.remove("--update-meta")
    if args[:1] == ["-j"]:
        j = int(args[1])
        args = args[2:]
    rids = sorted(d for d in os.listdir(os.path.join(VERIF, "refactorings")) if os.path.isfile(os.path.join(VERIF, "refactorings", d, "patch.diff")) and (not args or args[0] in d))
    bad = 0
    with cf.ThreadPoolExecutor(max_workers=j) as ex:
        for rid, alarms, err in ex.map(one, rids):
            print("%-8s %s %s" % (rid, "PATCH-ERROR" if alarms is None else ("FALSE-ALARM " + "; ".join(alarms) if alarms else "silent"), ("(exit 2: %s)" % ",".join(err)) if err else ""), flush=True)
            bad += bool(alarms)
    print("refactorings: %d, with alarms: %d" % (len(rids), bad))


if __name__ == "__main__":
    main()
