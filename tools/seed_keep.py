#!/usr/bin/env python3
"""Keep the confirmed seeds of one round: tools/seed_keep.py <round> <seed root> <result json glob prefix>
Copies patch.diff / demo.py of every seed whose evaluation (tools/seed_eval.py --tests) showed: demo passes on the
clean tree, fails with the patch, the pinned suite passes with the patch -- into /verif/seeded/<ID>-r<round>-<k>/
and writes meta.json (detection is filled in afterwards by tools/seeded_eval.py --update-meta)."""
import glob
import json
import os
import shutil
import sys

rnd, root, prefix = sys.argv[1], sys.argv[2], sys.argv[3]
VERIF = os.path.dirname(os.path.dirname(os.path.abspath(__file__)))
kept, dropped = [], []
for f in sorted(glob.glob(prefix + "*.json")):
    d = None
    for l in open(f):
        try:
            d = json.loads(l)
        except Exception:
            pass
    if not d or "pid" not in d:
        continue
    pid, k = d["pid"], d["k"]
    ok = d.get("demo_clean_rc") == 0 and d.get("demo_patched_rc") not in (0, None) and d.get("apply_rc") == 0 and "174 passed" in (d.get("tests_tail") or "") and "failed" not in (d.get("tests_tail") or "")
    if not ok:
        dropped.append((pid, k, d.get("demo_clean_rc"), d.get("demo_patched_rc"), d.get("tests_tail")))
        continue
    src = os.path.join(root, pid, "SEED", str(k))
    name = "%s-r%s-%s" % (pid, rnd, k)
    dst = os.path.join(VERIF, "seeded", name)
    os.makedirs(dst, exist_ok=True)
    shutil.copy(os.path.join(src, "patch.diff"), os.path.join(dst, "patch.diff"))
    shutil.copy(os.path.join(src, "demo.py"), os.path.join(dst, "demo.py"))
    notes = ""
    for nm in ("notes.md", "NOTES.md", "notes.txt"):
        if os.path.exists(os.path.join(src, nm)):
            notes = open(os.path.join(src, nm)).read().strip()
            break
    meta = {
        "property_broken": pid,
        "seed": name,
        "round": int(rnd),
        "origin": "written by a fresh sub-agent (round %s, on the final tree) that saw only the text of property %s and its own scratch git worktree of /repo (nothing from /verif)" % (rnd, pid),
        "files_changed": d.get("files"),
        "what_it_needs_to_manifest_and_author_notes": notes[:6000],
        "confirmed_by_me": {
            "how": "SEED_ROOT=%s tools/seed_eval.py %s %s --tests: fresh `git worktree` of /repo HEAD under /tmp/seedtest (removed afterwards); demo.py on the clean worktree, `git apply` of the patch, demo.py again, the pinned suite (minus the three baseline always-fail tests) with the patch, then every claimed check with --repo <worktree>" % (root, pid, k),
            "demo_exit_clean_tree": d.get("demo_clean_rc"),
            "demo_exit_with_patch": d.get("demo_patched_rc"),
            "demo_last_line_with_patch": d.get("demo_patched_tail"),
            "pinned_suite_with_patch": d.get("tests_tail"),
        },
        "checks_final_machinery": {},
        "how_to_replay": "git -C /repo apply /verif/seeded/%s/patch.diff && (cd /verif && ./check <ID>); git -C /repo checkout -- ." % name,
    }
    json.dump(meta, open(os.path.join(dst, "meta.json"), "w"), indent=1)
    kept.append(name)
print("kept", len(kept), "dropped", dropped)
