#!/usr/bin/env python3
"""Regenerates /verif/MANIFEST.json from the table below (single source of truth)."""
import json
import os

HERE = os.path.dirname(os.path.dirname(os.path.abspath(__file__)))

CHECKS = {}
NA = {}


def claim(pid, text, note, technique, design_ref):
    CHECKS[pid] = dict(text=text, note=note, technique=technique, design_ref=design_ref)


def na(pid, reason):
    NA[pid] = reason


exec(open(os.path.join(HERE, "tools", "claims.py")).read())

ALL = ["C%02d" % i for i in range(1, 21)]
man = {
    "version": 1,
    "setup_cmd": "cd /verif && ./check --selfcheck",
    "hooks": {
        "guard": "OAS_VERIF",
        "enable": "no hooks: the checks only read /repo sources (ast); nothing in /repo is built or instrumented",
        "baseline_off_cmd": "cd /repo && /venv/bin/python -m pytest -ra -q -p no:cacheprovider --timeout=900 --continue-on-collection-errors",
        "source_commits": [],
        "add_only": True,
    },
    "engines": [
        {
            "name": "oasa",
            "path": "/verif/oasa",
            "serves_properties": sorted(CHECKS),
            "kind_free_text": "repository-specific static analyser: ast loader/resolver, abstract interpreter with option-valuation enumeration and loop peeling (dependency, symbolic-shape, alias, typestate domains), sympy normal-form comparison of expressions extracted from the source; never imports or runs /repo code",
        }
    ],
    "checks": [],
    "not_applicable": [],
    "notes": "All checks are static (family: static analysis). Exit 0 pass, 1 VIOLATION, 2 ANALYSIS-ERROR (analysis broken / anchor vanished; never a silent pass). Known findings: /verif/known_findings.json. Self-test of the rules (mutation variants on scratch copies): /verif/selftest/run.py.",
}
for pid in ALL:
    if pid in CHECKS:
        c = CHECKS[pid]
        man["checks"].append(
            {
                "property_id": pid,
                "quick_cmd": "./check %s --tier quick" % pid,
                "thorough_cmd": "./check %s --tier thorough" % pid,
                "evidence_file": "/verif/evidence/%s.json" % pid,
                "replay_cmd_template": "cat {path}",
                "engine": "oasa",
                "level_claimed": {"category": "other", "text": c["text"], "design_ref": c["design_ref"]},
                "level_note": c["note"],
                "technique": c["technique"],
            }
        )
    else:
        man["not_applicable"].append({"property_id": pid, "reason": NA.get(pid, "no static rule built for this property yet")})
with open(os.path.join(HERE, "MANIFEST.json"), "w") as f:
    json.dump(man, f, indent=1)
print("checks:", len(man["checks"]), "not_applicable:", len(man["not_applicable"]))
