#!/usr/bin/env python3
"""Evaluate behaviour-preserving refactorings written by sub-agents:
   tools/refac_eval.py <root> [-j N]      (root/R<i>/REFAC/<k>/{patch.diff,demo.py})
For each: scratch git worktree of /repo HEAD, `demo.py record` on the clean tree, apply patch, `demo.py`
(must pass: same results), then every claimed check with --repo <worktree>.  Any exit 1 is a FALSE ALARM
to be triaged; exit 2 means the check could no longer decide (reported, not an alarm)."""
import concurrent.futures as cf
import json
import os
import shutil
import subprocess
import sys

VERIF = os.path.dirname(os.path.dirname(os.path.abspath(__file__)))
man = json.load(open(os.path.join(VERIF, "MANIFEST.json")))
ids = [c["property_id"] for c in man["checks"]]


def sh(cmd, cwd=None, timeout=3600, env=None):
    r = subprocess.run(cmd, shell=True, cwd=cwd, capture_output=True, text=True, timeout=timeout, env=env)
    return r.returncode, r.stdout + r.stderr


def one(item):
    root, ri, k = item
    src = os.path.join(root, ri, "REFAC", k)
    wt = "/tmp/refactest/%s_%s" % (ri, k)
    os.makedirs("/tmp/refactest", exist_ok=True)
    sh("git -C /repo worktree remove --force %s" % wt)
    rc, out = sh("git -C /repo worktree add -q --detach %s HEAD" % wt)
    res = {"id": "%s-%s" % (ri, k)}
    try:
        for fn in os.listdir(src):
            if fn not in ("patch.diff", "notes.md") and os.path.isfile(os.path.join(src, fn)):
                shutil.copy(os.path.join(src, fn), os.path.join(wt, fn))
        rc0, o0 = sh("/venv/bin/python demo.py record", cwd=wt, timeout=2400)
        res["record_rc"] = rc0
        rca, oa = sh("git apply --whitespace=nowarn %s/patch.diff" % src, cwd=wt)
        res["apply_rc"] = rca
        rc1, o1 = sh("/venv/bin/python demo.py", cwd=wt, timeout=2400)
        res["compare_rc"] = rc1
        res["compare_tail"] = o1.strip().splitlines()[-1][:160] if o1.strip() else ""
        rcs, outs = sh("git status --short | grep -v '^??'", cwd=wt)
        res["files"] = [l.split()[-1] for l in outs.splitlines()]
        env = dict(os.environ, OAS_EVIDENCE_DIR="/tmp/refactest/ev_%s_%s" % (ri, k))
        alarms, errs = {}, []
        for pid in ids:
            r = subprocess.run([os.path.join(VERIF, "check"), pid, "--repo", wt], capture_output=True, text=True, env=env, cwd=VERIF)
            if r.returncode == 1:
                alarms[pid] = [l[:300] for l in (r.stdout + r.stderr).splitlines() if l.startswith("openaerostruct/")][:3]
            elif r.returncode != 0:
                errs.append((pid, [l[:200] for l in (r.stdout + r.stderr).splitlines() if "ANALYSIS-ERROR" in l][:1]))
        res["alarms"] = alarms
        res["undecided_checks"] = errs
        shutil.rmtree(env["OAS_EVIDENCE_DIR"], ignore_errors=True)
    finally:
        sh("git -C /repo worktree remove --force %s" % wt)
    return res


def main():
    root = sys.argv[1]
    j = int(sys.argv[sys.argv.index("-j") + 1]) if "-j" in sys.argv else 8
    items = []
    for ri in sorted(os.listdir(root)):
        d = os.path.join(root, ri, "REFAC")
        if os.path.isdir(d):
            for k in sorted(os.listdir(d)):
                if os.path.isfile(os.path.join(d, k, "patch.diff")):
                    items.append((root, ri, k))
    with cf.ThreadPoolExecutor(max_workers=j) as ex:
        for r in ex.map(one, items):
            print(json.dumps(r), flush=True)


if __name__ == "__main__":
    main()
