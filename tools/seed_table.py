#!/usr/bin/env python3
"""Markdown table 'seed | caught by' of one seeding round from the seeds' meta.json
   (written by tools/seeded_eval.py --update-meta):  tools/seed_table.py <round> [columns]"""
import glob
import json
import os
import re
import sys

VERIF = os.path.dirname(os.path.dirname(os.path.abspath(__file__)))
rnd = int(sys.argv[1])
cols = int(sys.argv[2]) if len(sys.argv) > 2 else 3
rows = []
for f in sorted(glob.glob(os.path.join(VERIF, "seeded", "*", "meta.json"))):
    d = json.load(open(f))
    if d.get("round", 1) != rnd and not (rnd == 1 and "round" not in d):
        continue
    cf = d.get("checks_final_machinery") or {}
    parts = []
    for pid in cf.get("detected_by", []):
        rules = []
        for l in cf.get("first_report_lines", {}).get(pid, []):
            m = re.match(r"\S+:\d+\s+(\S+)\s", l)
            if m and m.group(1) not in rules:
                rules.append(m.group(1))
        parts.append("%s-%s" % (pid, "/".join(rules)) if rules else pid)
    txt = ", ".join(parts) if parts else ("**not detected**" + (" (exit 2: %s)" % ",".join(cf.get("analysis_errors")) if cf.get("analysis_errors") else ""))
    rows.append((d["seed"], txt))
print("| " + " | ".join(["seed", "caught by"] * cols) + " |")
print("|" + "---|" * (2 * cols))
for i in range(0, len(rows), cols):
    chunk = rows[i:i + cols]
    chunk += [("", "")] * (cols - len(chunk))
    print("| " + " | ".join("%s | %s" % c for c in chunk) + " |")
n = sum(1 for _, t in rows if not t.startswith("**not"))
print("\n%d of %d detected" % (n, len(rows)))
