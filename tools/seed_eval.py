#!/usr/bin/env python3
"""Evaluate a seeded defect produced by a sub-agent:
   tools/seed_eval.py <PID> <k> [--tests]
1. scratch worktree of /repo HEAD under /tmp/seedtest/<PID>_<k>
2. demo on the clean tree (must exit 0), apply patch, demo again (must fail)
3. optionally the whole pinned test-suite with the patch (--tests; ~7 min)
4. every claimed check (quick tier) against the patched worktree (--repo), evidence redirected
5. worktree removed.  Prints one JSON line with the outcome.
"""
import json
import os
import shutil
import subprocess
import sys

PID, K = sys.argv[1], sys.argv[2]
TESTS = "--tests" in sys.argv
ROOT = os.environ.get("SEED_ROOT", "/tmp/seed2")
SRC = "%s/%s/SEED/%s" % (ROOT, PID, K)
WT = "/tmp/seedtest/%s_%s" % (PID, K)
VERIF = "/verif"


def sh(cmd, cwd=None, timeout=3600, env=None):
    r = subprocess.run(cmd, shell=True, cwd=cwd, capture_output=True, text=True, timeout=timeout, env=env)
    return r.returncode, r.stdout + r.stderr


res = {"pid": PID, "k": K}
os.makedirs("/tmp/seedtest", exist_ok=True)
sh("git -C /repo worktree remove --force %s" % WT)
rc, out = sh("git -C /repo worktree add -q --detach %s HEAD" % WT)
if rc:
    print(json.dumps({"pid": PID, "k": K, "error": out[-300:]}))
    sys.exit(1)
try:
    shutil.copy(os.path.join(SRC, "demo.py"), os.path.join(WT, "seed_demo.py"))
    rc0, out0 = sh("/venv/bin/python seed_demo.py", cwd=WT, timeout=1800)
    res["demo_clean_rc"] = rc0
    rca, outa = sh("git apply --whitespace=nowarn %s/patch.diff" % SRC, cwd=WT)
    res["apply_rc"] = rca
    if rca:
        res["apply_err"] = outa[-300:]
    rc1, out1 = sh("/venv/bin/python seed_demo.py", cwd=WT, timeout=1800)
    res["demo_patched_rc"] = rc1
    res["demo_patched_tail"] = out1.strip().splitlines()[-1][:200] if out1.strip() else ""
    rcs, outs = sh("git status --short | grep -v '^??'", cwd=WT)
    res["files"] = [l.split()[-1] for l in outs.splitlines()]
    if TESTS:
        rct, outt = sh("/venv/bin/python -m pytest -q -p no:cacheprovider --timeout=900 -x --deselect tests/integration_tests/test_scaneagle.py::Test::test_totals --deselect tests/integration_tests/test_simple_rect_mphys_aero.py::Test::test --deselect tests/integration_tests/test_simple_rect_mphys_aero_compressible.py::Test::test tests 2>&1 | tail -3", cwd=WT, timeout=3000)
        res["tests_tail"] = outt.strip().splitlines()[-1][:160] if outt.strip() else ""
    man = json.load(open(os.path.join(VERIF, "MANIFEST.json")))
    det = {}
    evd = "/tmp/seedtest/ev_%s_%s" % (PID, K)
    env = dict(os.environ, OAS_EVIDENCE_DIR=evd)
    procs = {}
    for c in man["checks"]:
        p = c["property_id"]
        procs[p] = subprocess.Popen([os.path.join(VERIF, "check"), p, "--repo", WT, "--tier", "quick"], cwd=VERIF, stdout=subprocess.PIPE, stderr=subprocess.STDOUT, text=True, env=env)
    for p, pr in procs.items():
        o, _ = pr.communicate()
        lines = [l for l in o.splitlines() if l.startswith("openaerostruct/")]
        det[p] = {"rc": pr.returncode, "lines": [l[:260] for l in lines[:4]]}
        if pr.returncode == 2:
            det[p]["err"] = [l[:260] for l in o.splitlines() if "ANALYSIS-ERROR" in l][:2]
    res["checks"] = {p: d for p, d in det.items() if d["rc"] != 0}
    res["detected_by"] = sorted(p for p, d in det.items() if d["rc"] == 1)
    shutil.rmtree(evd, ignore_errors=True)
finally:
    sh("git -C /repo worktree remove --force %s" % WT)
print(json.dumps(res))
