#!/bin/bash
# usage: seed_batch.sh "C17 1" "C17 2" ...
for s in "$@"; do set -- $s; python3 /verif/tools/seed_eval.py $1 $2 $EXTRA > /tmp/seedtest_$1_$2.json 2>&1 & 
  while [ $(jobs -r | wc -l) -ge 8 ]; do sleep 2; done
done; wait
