#!/bin/bash
cd /verif
export SEED_ROOT=/tmp/seed3
for p in "$@"; do
  for k in 1 2 3; do
    [ -f /tmp/seed3/$p/SEED/$k/patch.diff ] || continue
    python3 /verif/tools/seed_eval.py $p $k --tests > /tmp/seed3full_${p}_${k}.json 2>&1 &
    while [ $(jobs -r | wc -l) -ge 6 ]; do sleep 5; done
  done
done
wait
echo ALLDONE > /tmp/seed3full_DONE_$1
