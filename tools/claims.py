# Per-property claims; exec'd by gen_manifest.py (claim / na are provided).
TB = "Trusted: python ast, sympy normal forms, the numpy transfer tables (oasa/npsem.py), the OpenMDAO contracts listed in DESIGN.md section 7, and the per-rule role/exemption tables. Decides structural necessary conditions only; numerical values of hand-indexed tensor Jacobians are not decided."

claim(
    "C01",
    "Static: decides, for every component, option valuation and mesh size, the structural half of derivative correctness (no missing, undeclared, never-stored or stale partial blocks; constant Jacobians only for affine dependence; branch agreement between compute and compute_partials; sibling arms of one setup() re-index rows and columns together; a declaration made only in a special first loop iteration covers every later surface too; no Jacobian block is assigned on only one input-dependent branch; no per-surface value leaks from one surface loop into the Jacobian blocks built in a later one) and, for the scalar / element-wise components, that each stored partial is the derivative of the expression compute() evaluates (identity of extracted expressions). Does not decide the values or non-zero positions of hand-indexed tensor Jacobians (P5 / P8 of the design were not built).",
    TB,
    "abstract interpretation (dependency / alias / affine domains) over compute vs declare_partials / compute_partials per option valuation; source-level expression extraction and differentiation (sympy) for the element-wise components",
    "DESIGN.md section 2 C01",
)
na("C14", "purely numerical post-conditions of the mesh generators (monotone coordinates, extents, node-for-node equality); no abstract domain in reach bounds them without evaluating the generators")

claim(
    "C03",
    "Static: decides, per component method and option valuation, that every read-modify-write of persistent storage (outputs, residuals, partials, self.*) is preceded in the same call by a plain store covering the region (typestate), that no branch of an evaluation method tests instance state written at run time (memo flags, cached factors), that no code writes state outside the instance (module globals, class attributes, mutable defaults), that in run-once groups every consumer is added after its producers, that no evaluation method returns early on an input-valued condition before its outputs are written, that compute writes every declared output completely (a store through a data-dependent mask guarantees nothing), that compute_partials / linearize assign or reset every Jacobian block on every input-dependent path, and that linearisation methods never store into the inputs. Does not decide solver-level hysteresis.",
    TB,
    "typestate (STALE->FRESH per storage cell) over the abstract interpreter's store events with symbolic region coverage; effect analysis for writes outside the instance",
    "DESIGN.md section 2 C03",
)

claim(
    "C19",
    "Static: decides the index bookkeeping behind composition of surfaces for all surface lists and mesh sizes: running offsets start at 0, advance by exactly the width of the block they address (polynomial identity; index blocks offset + [lo, hi) stay below the advance for all mesh sizes >= 2), blocks tile axes of length sum-of-advances, per-surface values do not leak from one loop into a later loop or into a scalar attribute used for every surface, totals over the surface list are accumulated commutatively and never overwritten, a running total of input data is read only after the loop (so nothing computed for one surface depends on the surfaces listed before it), every surface key the aerodynamic subsystems read is copied for multi-section surfaces, the MPhys wrapper groups map the same flight-condition inputs onto MPhys names in every option valuation, and the (de)multiplexers assign (never accumulate into) their outputs. Does not decide permutation / splitting invariance of numerical results.",
    TB,
    "symbolic prefix-sum analysis of running offsets (loop-carried symbolic integers, uninterpreted linear SUM over the list) and def-use analysis of per-element values across loops",
    "DESIGN.md section 2 C19",
)

claim(
    "C02",
    "Static: decides the structural preconditions of forward/reverse agreement and solver independence: solve_linear mode discipline (transposed factor in rev unless matrix symmetry is structurally evidenced), factor freshness, adjoint duality of the matrix-free (de)multiplexers, a capable linear solver on every cyclic group for every option valuation, and complex-step safety of every value that depends on an input differentiated with method=cs. Does not decide numerical equality of totals.",
    TB,
    "event-log queries over the abstract interpreter (mode-specialised runs of solve_linear / compute_jacvec_product), group connection-graph cycle analysis",
    "DESIGN.md section 2 C02",
)
claim(
    "C08",
    "Static: decides the three structural mechanisms of the method of images: rejection of ground effect without symmetry for every valuation, image strength -1 and the real/image split at nx in compute and compute_partials, the stacking order in VortexMesh, that the guard keys (groundplane, symmetry) are never rewritten and are copied for multi-section surfaces, and that the image construction is dimensionally homogeneous (the height enters as a length). Does not decide the far-field limit or numerical equivalence with an explicit image system.",
    TB,
    "valuation enumeration of VortexMesh.setup (must-raise), value extraction of the strength list and split slices from the abstract interpreter",
    "DESIGN.md section 2 C08",
)
claim(
    "C10",
    "Static: decides symmetry of the element tables, rigid-body null space and cantilever flexibility of the bending blocks (closed form, sympy), that both stiffness transformations are congruences, that assembly keeps symmetry that exactly the six DOFs of the documented root node are clamped (index a function of the node count only), that the tiny-load threshold is an absolute constant, that the right-hand side and the reported displacements are completely rewritten on every evaluation, that Disp reports the solution unmodified, and that the element frames are built without any input-valued selection. Does not decide displacement values.",
    TB,
    "constant folding of module tables + sympy identities; AST pattern analysis of einsum congruences and the sparse assembly; symbolic clamp index per option valuation",
    "DESIGN.md section 2 C10",
)
claim(
    "C12",
    "Static: decides that the coupled group closes the struct->mesh->aero->loads->struct cycle per surface, carries an iterative nonlinear solver that raises on non-convergence plus a capable linear solver, receives no feedback from downstream subsystems, that no code keeps state outside the instance (flight points isolated), and -- for independence from the initial guess -- that every output is completely written and no evaluation exits early on input values. Does not decide convergence or equality between solvers.",
    TB,
    "group connection-graph analysis per option valuation; effect analysis for shared state",
    "DESIGN.md section 2 C12",
)
claim(
    "C20",
    "Static: decides that each documented invalid set-up reaches a raise on every path (must-pass-through), that the entry groups validate dictionary keys and the validators warn, that no store / in-place operation reaches an alias of a user array (surface / options values, helper arguments), that no key of a user dictionary is assigned, that numeric defaults are taken by key presence (an admissible 0 is kept), that there is no unseeded random source or shared mutable state, that every output is completely rewritten on every evaluation (nothing left over from a previous run), and that the viscous-drag formula is finite at both ends of the documented laminar-fraction range. Does not decide finiteness of outputs in general.",
    TB,
    "must-pass-through checks on the AST, alias/effect analysis over the abstract interpreter's store events",
    "DESIGN.md section 2 C20",
)

claim(
    "C04",
    "Static: decides the bookkeeping of the symmetry factor two for every component and option valuation by extensivity typing: under symmetry every observed output is intensive or a full-configuration total, nothing that is not a half-span total is doubled, half and full totals are never added, producers and consumers agree on the type of shared quantities, every stored partial carries the extensivity quotient of its output and input, and the fuel load applied to the modelled half is half the fuel weight under symmetry and all of it for a full model (also when the symmetry flag is never consulted). Does not decide ghost-mesh geometry or folded influence coefficients.",
    TB,
    "abstract interpretation with an extensivity type domain (half/full-span exponents, panel axes from symbolic shapes, doubling-factor idioms)",
    "DESIGN.md section 2 C04",
)

claim(
    "C17",
    "Static: decides, as identities of expressions extracted from the source for generic surfaces, that the performance functionals equal the defining formulas of the property statement (L = q S CL, area-weighted coefficients, lift-equals-weight residual and weight, Breguet fuel burn, mass-weighted cg given Equilibrium's weight, Reynolds number per length, CD sum), that their stored partials are the derivatives of those values, that CM is normalised by a chord that depends on the first surface only, that the literal atmosphere tables are mutually consistent at every node, that AtmosComp uses one interpolant per quantity (no branch on the altitude), and that the performance groups promote every flight-condition / weight input of every functional (no functional left on its own default load factor, speed or weights). Does not decide continuity of the splines themselves.",
    TB + " Symbol positivity assumptions for physical quantities (rho, v, areas, masses).",
    "source-level expression extraction (sympy) per option valuation and normal-form comparison against the formulas of the statement",
    "DESIGN.md section 2 C17",
)

claim(
    "C09",
    "Static: decides the algebraic skeleton of the Prandtl-Glauert pipeline: the per-axis beta exponents of geometry, normals, rotational velocities and forces equal those of the property (and reduce to 1 at M = 0) in values and partials; the aero->wind matrix is a proper rotation whose first row is the free-stream direction and the back-rotation is exactly its transpose; the scale factors are not selected by an input-valued branch nor computed from a clamped Mach number; inside CompressibleVLMStates the inner solve is wired at alpha_pg = beta_pg = 0 with transformed geometry only. Does not decide continuity in Mach or the numerical M = 0 identity of the two solvers.",
    TB,
    "source-level extraction of small matrices and per-axis scale factors (sympy), group connection templates",
    "DESIGN.md section 2 C09",
)

claim(
    "C11",
    "Static: decides the conservation structure of the transfers for all inputs: the panel force reaches the nodes with total weight one; each nodal moment is the chordwise sum of cross(a - s[same node slice], same force share) with the aerodynamic centre at the quarter-chord mid-span stencil; the default mesh-point weights sum to one per panel with the resultant at the quarter chord; the transformation matrix is zero at zero rotation with the skew matrix as first-order part and the deformed mesh is affine in the displacements; ComputeNodes and LoadTransfer use the same structural-node location under every option valuation; the transfer components are evaluated after their producers.",
    TB,
    "source-level expression extraction (uninterpreted cross / axis-sum, stencil coefficients), LIN domain, cross-component agreement per option valuation, group dataflow order",
    "DESIGN.md section 2 C11",
)

claim(
    "C16",
    "Static: decides, for every option valuation, that the load vector handed to the beam solve is the aerodynamic load plus each enabled inertial/thrust source exactly once; that distributed structural and fuel weight are lumped half/half on the end nodes of each element with total -(mass) g n in z only (fuel total halved for a half model) and equal and opposite end moments, and that the z forces summed over all nodes equal minus the total weight whatever the lumping idiom; that point-mass and thrust loads use weightings that sum to one, act along (0,0,-1) with magnitude m g n and (-1,0,0) with magnitude T, and carry moments (load point - node) x force; that structural mass is k times the sum of element masses (k = 2 only under symmetry) and the cg is modified only under symmetry; and that load_factor is promoted wherever a subsystem has it. A component that never consults the symmetry flag has to satisfy the half-model and the full-model identity at once. Does not decide the numerical agreement with a closed-form beam solution.",
    TB,
    "source-level expression extraction (sympy, uninterpreted axis-sum and cross), store-event algebra on the load array, group promotion model, extensivity typing",
    "DESIGN.md section 2 C16",
)

claim(
    "C18",
    "Static: decides the switch clause (option off: literal 0 value and zero partials), the wiring of the lift coefficient into the wave-drag estimate and of the three drag parts into the sum, and -- on the expressions extracted from compute() -- that the per-panel skin-friction coefficient is positive and decreases with the chord Reynolds number in the fully turbulent and fully laminar branches (interval proof; mixed branch: positivity proved, monotonicity searched for counterexamples only), that the form factor is positive and increases with t/c, and that the wave drag is exactly 0 up to Mcrit and 20 (M - Mcrit)^4 beyond it (C3 junction) with the Korn drag-divergence Mach number, growing with Mach number and lift, and that the friction formula and every intermediate reaching it are finite at both ends of the laminar-fraction range. Does not decide independence of the panel count.",
    TB + " Interval arithmetic of mpmath.",
    "source-level expression extraction (sympy); interval branch-and-bound and sign reasoning on the extracted expressions; group dataflow",
    "DESIGN.md section 2 C18",
)

claim(
    "C07",
    "Static: decides three structural necessary conditions of mirror symmetry: the orientation predicate is consulted only for surfaces modelled with symmetry (a full-span surface has no hand; no branch depends on which of its tips is further from y=0); for half models, the two components that detect the hand of a symmetric half (VortexMesh, EvalVelMtx) use complementary strict comparisons of |y| at the first and last spanwise node of the same mesh in set-up, evaluation and linearisation; and the geometry design variables do not contradict that: the sweep / dihedral displacement of a half is invariant under the mirror map (decided on the extracted expression), taper / twist do not hard-wire the last spanwise node as the root without testing the hand, the stretched span coordinate is odd under the mirror map, and the right-wing re-indexing of the influence array reverses the spanwise axis only. Does not decide the reflection equivariance of forces, displacements or stresses, nor the wingbox end-node stress recovery.",
    TB,
    "AST canonicalisation of the orientation predicates; source-level expression extraction (sympy) with a mirror substitution; contradiction rule over enumerated root idioms",
    "DESIGN.md section 2 C07",
)

claim(
    "C05",
    "Static: decides the structural clauses of the vortex-lattice method for every option valuation: the finite filaments EvalVelMtx adds for each (image) surface form a closed directed ring over the four panel corners with one strength, the last row sheds the reversed rear segment into two semi-infinite legs of opposite sign along (cos alpha, 0, sin alpha) so that no filament ends in the fluid; collocation points, force points, bound vectors and vortex-ring rows are the 3/4- and 1/4-chord stencils of the mesh corners with the trailing edge kept; the panel force is rho Gamma (v x l); the tangency system is -(v.n) and (AIC.n); the lattice is built from the current def_mesh input, never from the set-up mesh. Does not decide kernel values, the solve, the tangency residual or agreement with an independent solver.",
    TB + " The Biot-Savart kernels are uninterpreted functions of the corner arrays they are applied to.",
    "source-level expression extraction (sympy) with uninterpreted kernel helpers; signed incidence of the filament graph; stencil coefficients",
    "DESIGN.md section 2 C05",
)

claim(
    "C06",
    "Static: decides dimensional homogeneity of every compute() by unit inference seeded with the declared input units (one dimension per + - compare, dimensionless arguments of transcendental functions, inferred dimension of each output equal to its declared unit, coefficients dimensionless, one dimension per variable name across components, no dimensional constants beyond the documented ones), which by the Pi theorem is the density-, speed- and length-scaling law up to those constants; that lift and drag are the components of the summed panel forces along the unit free-stream direction used by ConvertVelocity and along a unit normal to it; that the moment and the rotational velocity depend on positions only through differences (translation law); that CL1 = L/(qS), CDi = D/(qS) and the aircraft coefficients are the reference-area-weighted combination; that the panel force is rho Gamma (v x l); that the flight-condition inputs, the reference point and the rotation rate are exposed wherever a subsystem has them and that explicit wiring between sibling subsystems is complete. Does not decide the scaling of the solved circulations through the linear system or the kernel's translation invariance.",
    TB + " Unit strings are interpreted by a table of OpenMDAO unit names (oasa/unit.py BASE).",
    "abstract interpretation with a physical-dimension domain; source-level expression extraction (sympy) with bilinear normalisation of the cross product; cross-component agreement",
    "DESIGN.md section 2 C06",
)

claim(
    "C13",
    "Static: decides, as identities of the expressions extracted from the source for arbitrary input meshes, that every transformation except Stretch returns its input mesh when its design variable has the default value (taper 1, chord 1, sweep / dihedral / shears / twist 0) under every option valuation, that GeometryMesh chains the nine transformations in the documented order with identity defaults and a default span consistent with Stretch, that sweep and dihedral displace x and z by tan(angle) times the distance from the root with the documented sign on both halves, that the taper weight is 1 at the tip(s) and 0 at the root with a linear blend (also when computed in a helper), that every transformation with a reference-axis option receives the surface's reference axis, that the Geometry group promotes every geometric variable whose key is present into the mesh chain for both values of its <key>_dv flag, and that reference-axis and design-variable defaults are taken by key presence. Does not decide Stretch's identity, area / chord-length invariants or B-spline behaviour.",
    TB,
    "source-level expression extraction (sympy) with substitution of the default parameter values, uninterpreted concatenation / contraction, group model of GeometryMesh under fixed key-presence policies",
    "DESIGN.md section 2 C13",
)

claim(
    "C15",
    "Static: decides, as identities of the per-element expressions extracted from the source, that the KS aggregate is the max-shifted log-sum-exp of stress/yield - 1 on every path (which implies max <= KS <= max + ln N / rho and overflow safety), that the exact failure is stress/yield - 1 with the surface's yield stress itself as allowable, that every stored von Mises stress is positively homogeneous of degree one in the element's local displacements with strength factors dividing the whole combined stress, and that rigid translations and small rigid rotations of an element give zero stress. Does not decide agreement with closed-form section stresses (the local-axis construction is opaque).",
    TB,
    "source-level expression extraction with value numbering of the local displacement components (sympy), substitution identities",
    "DESIGN.md section 2 C15",
)
