# Per-property claims; exec'd by gen_manifest.py (claim / na are provided).
TB = "Trusted: python ast, sympy normal forms, the numpy transfer tables (oasa/npsem.py), the OpenMDAO contracts listed in DESIGN.md section 7, and the per-rule role/exemption tables. Decides structural necessary conditions only; numerical values of hand-indexed tensor Jacobians are not decided."

claim(
    "C01",
    "Static: decides, for every component, option valuation and mesh size, the structural half of derivative correctness (no missing, undeclared, never-stored or stale partial blocks; branch agreement between compute and compute_partials). Does not decide tensor Jacobian values.",
    TB,
    "abstract interpretation (dependency / alias domains) over compute vs declare_partials / compute_partials, per option valuation",
    "DESIGN.md section 2 C01",
)
na("C14", "purely numerical post-conditions of the mesh generators (monotone coordinates, extents, node-for-node equality); no abstract domain in reach bounds them without evaluating the generators")

claim(
    "C03",
    "Static: decides, per component method and option valuation, that every read-modify-write of persistent storage (outputs, residuals, partials, self.*) is preceded in the same call by a plain store covering the region (typestate), and that no code writes state outside the instance (module globals, class attributes, mutable defaults). Does not decide solver-level hysteresis.",
    TB,
    "typestate (STALE->FRESH per storage cell) over the abstract interpreter's store events with symbolic region coverage; effect analysis for writes outside the instance",
    "DESIGN.md section 2 C03",
)

claim(
    "C19",
    "Static: decides the index bookkeeping behind composition of surfaces for all surface lists and mesh sizes: running offsets start at 0, advance by exactly the width of the block they address (polynomial identity), blocks tile axes of length sum-of-advances, and per-surface values do not leak from one loop into a later loop. Does not decide permutation / splitting invariance of numerical results.",
    TB,
    "symbolic prefix-sum analysis of running offsets (loop-carried symbolic integers, uninterpreted linear SUM over the list) and def-use analysis of per-element values across loops",
    "DESIGN.md section 2 C19",
)
