#!/usr/bin/env python3
"""Self-test of the static rules (E7): every rule must fire on a scratch copy
with one instance broken (naming the construct) and stay silent on
behaviour-preserving rewrites.  Not a registered check; run it after editing
the engine:   python3 selftest/run.py [-j 16] [-k substring]

Variants are text edits (old -> new, exactly one occurrence) applied to a copy
of /repo/openaerostruct under $TMPDIR; the copy is parsed (must still compile)
and removed afterwards.  /repo is never touched.
"""
import argparse
import ast
import concurrent.futures as cf
import importlib.util
import os
import shutil
import subprocess
import sys
import tempfile
import time

HERE = os.path.dirname(os.path.abspath(__file__))
VERIF = os.path.dirname(HERE)
REPO = os.environ.get("OAS_REPO", "/repo")


def load_variants():
    out = []
    vdir = os.path.join(HERE, "variants")
    for fn in sorted(os.listdir(vdir)):
        if not fn.endswith(".py"):
            continue
        spec = importlib.util.spec_from_file_location("v_" + fn[:-3], os.path.join(vdir, fn))
        m = importlib.util.module_from_spec(spec)
        spec.loader.exec_module(m)
        for v in m.VARIANTS:
            v = dict(v)
            v.setdefault("src", fn)
            out.append(v)
    return out


def run_variant(v):
    t0 = time.time()
    tmp = tempfile.mkdtemp(prefix="oas_selftest_")
    try:
        shutil.copytree(os.path.join(REPO, "openaerostruct"), os.path.join(tmp, "openaerostruct"), ignore=shutil.ignore_patterns("__pycache__", "docs", "examples", "*.pyc"))
        # the surface-dictionary reference is read by the unit rules (documented units of the keys)
        ur = os.path.join(REPO, "openaerostruct", "docs", "user_reference")
        if os.path.isdir(ur):
            shutil.copytree(ur, os.path.join(tmp, "openaerostruct", "docs", "user_reference"))
        for ed in v["edits"]:
            rel, old, new = ed[:3]
            occ = ed[3] if len(ed) > 3 else None  # None: must be unique; int: that occurrence; "all"
            p = os.path.join(tmp, "openaerostruct", rel)
            s = open(p, newline="").read()
            old_, new_ = old, new
            if "\r\n" in s:
                old_, new_ = old.replace("\n", "\r\n"), new.replace("\n", "\r\n")
            n = s.count(old_)
            if (occ is None and n != 1) or (isinstance(occ, int) and n <= occ) or (occ == "all" and n == 0):
                return v, "SETUP-ERROR", "edit anchor occurs %d times in %s: %r" % (n, rel, old[:60]), time.time() - t0
            if occ is None or occ == "all":
                s = s.replace(old_, new_)
            else:
                parts = s.split(old_)
                s = old_.join(parts[: occ + 1]) + new_ + old_.join(parts[occ + 1:])
            try:
                ast.parse(s)
            except SyntaxError as e:
                return v, "SETUP-ERROR", "variant does not parse: %s" % e, time.time() - t0
            open(p, "w", newline="").write(s)
        evd = os.path.join(tmp, "evidence")
        env = dict(os.environ, OAS_EVIDENCE_DIR=evd, OAS_REPO=tmp)
        if v["property"] == "ALL":
            # behaviour-preserving refactoring: no claimed check may raise an alarm
            import json

            man = json.load(open(os.path.join(VERIF, "MANIFEST.json")))
            alarms, errors = [], []
            for c in man["checks"]:
                pid = c["property_id"]
                r = subprocess.run([os.path.join(VERIF, "check"), pid, "--repo", tmp, "--tier", "quick"], capture_output=True, text=True, env=env, cwd=VERIF)
                if r.returncode == 1:
                    alarms.append("%s: %s" % (pid, [l for l in (r.stdout + r.stderr).splitlines() if l.startswith("openaerostruct/")][:1]))
                elif r.returncode != 0:
                    errors.append(pid)
            if alarms:
                return v, "FALSE-ALARM", "; ".join(alarms)[:400], time.time() - t0
            if errors and not v.get("allow_undecided"):
                return v, "ANALYSIS-ERR", "checks that could no longer decide: %s" % errors, time.time() - t0
            return v, "OK", "", time.time() - t0
        r = subprocess.run([os.path.join(VERIF, "check"), v["property"], "--repo", tmp, "--tier", v.get("tier", "quick")], capture_output=True, text=True, env=env, cwd=VERIF)
        out = r.stdout + r.stderr
        if v["kind"] == "break":
            if r.returncode != 1:
                return v, "MISSED", "exit %d; %s" % (r.returncode, out.strip().splitlines()[-1] if out.strip() else ""), time.time() - t0
            exp = v.get("expect", [])
            lines = [l for l in out.splitlines() if "  " + v["rule"] + "  " in l]
            if not lines:
                return v, "WRONG-RULE", "no report line of rule %s; got: %s" % (v["rule"], out[:300]), time.time() - t0
            if exp and not any(all(x in l for x in exp) for l in lines):
                return v, "WRONG-CONSTRUCT", "rule %s fired but not naming %s: %s" % (v["rule"], exp, lines[0][:200]), time.time() - t0
            # no collateral alarms of other rules unless allowed
            other = [l for l in out.splitlines() if l.startswith("openaerostruct/") and "  " + v["rule"] + "  " not in l]
            if other and not v.get("allow_other"):
                return v, "COLLATERAL", other[0][:200], time.time() - t0
            return v, "OK", lines[0][:160], time.time() - t0
        else:
            if r.returncode != 0:
                return v, "FALSE-ALARM", out.strip()[:400], time.time() - t0
            return v, "OK", out.strip().splitlines()[-1][:160], time.time() - t0
    finally:
        shutil.rmtree(tmp, ignore_errors=True)


def main():
    ap = argparse.ArgumentParser()
    ap.add_argument("-j", type=int, default=min(16, os.cpu_count() or 4))
    ap.add_argument("-k", default=None)
    ap.add_argument("-p", default=None, help="property id")
    a = ap.parse_args()
    vs = load_variants()
    if a.k:
        vs = [v for v in vs if a.k in v["id"]]
    if a.p:
        vs = [v for v in vs if v["property"] == a.p.upper()]
    bad = 0
    t0 = time.time()
    with cf.ThreadPoolExecutor(max_workers=a.j) as ex:
        for v, status, msg, dt in ex.map(run_variant, vs):
            if status != "OK":
                bad += 1
            print("%-15s %-5s %-8s %-44s %5.1fs  %s" % (status, v["kind"], v["property"] + "/" + v.get("rule", "-"), v["id"], dt, msg if status != "OK" else ""))
    print("selftest: %d variants, %d not ok, %.0fs" % (len(vs), bad, time.time() - t0))
    return 1 if bad else 0


if __name__ == "__main__":
    sys.exit(main())
