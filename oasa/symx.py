"""E5 algebra: extraction of sympy expressions from straight-line scalar /
element-wise code (as an interpreter domain) and normal-form comparison.

This is program algebra on syntax trees -- value numbering, source-level
differentiation and canonical-form comparison of *one* straight-line fragment
per option valuation -- not path exploration, constraint solving or evaluation
at sample points.  Anything outside the supported fragment makes the value
``None`` (the obligation is then *undecided*, never an alarm).
"""
import ast

import sympy as sp

from .absval import register_domain
from .domains import Domain
from .load import unparse

class CAT(sp.Function):
    """uninterpreted concatenation of array pieces; a concatenation of zeros is zero"""

    @classmethod
    def eval(cls, *args):
        if args and all(getattr(a, "is_zero", False) for a in args):
            return sp.Integer(0)
        return None


# repository helpers that are deliberately kept as black boxes (their bodies are the
# Biot-Savart kernels; the rules reason about which filaments they are applied to)
KERNELS = {"_compute_finite_vortex", "_compute_semi_infinite_vortex", "_compute_finite_vortex_deriv1", "_compute_finite_vortex_deriv2", "_compute_semi_infinite_vortex_deriv"}
MIN2 = sp.Function("MIN2")  # element-wise minimum / maximum of two values (uninterpreted, commutative)
MAX2 = sp.Function("MAX2")
SUB = sp.Function("SUB")  # SUB(expr, subscript text): a slice / element of an array-valued expression
EINSUM = sp.Function("EINSUM")  # uninterpreted contraction EINSUM(spec, A, B)
SIG = sp.Function("SIG")  # uninterpreted linear reduction over the panel / element axes
SIGA = sp.Function("SIGA")  # reduction over one named axis: SIGA(expr, axis)
CROSS = sp.Function("CROSS")  # vector product along the last axis (bilinear, uninterpreted)
MAXF = sp.Function("MAXF")  # maximum over all elements (uninterpreted)
EYE = sp.Symbol("EYE")  # identity Jacobian of an array with respect to itself (element-wise)

POSITIVE = ("t_over_c", "lengths_spanwise", "cfg:surface['k_lam']", "cfg:surface['c_max_t']", "rho", "v", "S_ref", "S_ref_total", "speed_of_sound", "Mach_number", "W0", "R", "CT", "re", "mu", "load_factor", "_structural_mass", "_S_ref", "chords", "widths", "lengths", "radius", "thickness", "A", "Iy", "Iz", "J", "element_lengths")

FUNCS = {
    "sin": sp.sin, "cos": sp.cos, "tan": sp.tan, "exp": sp.exp, "log": sp.log, "sqrt": sp.sqrt,
    "arctan": sp.atan, "arccos": sp.acos, "arcsin": sp.asin, "tanh": sp.tanh, "sinh": sp.sinh, "cosh": sp.cosh,
    "abs": sp.Abs, "absolute": sp.Abs,
}


class SymTable:
    """Symbols of one component: inputs (scalar / array), configuration values."""

    def __init__(self):
        self.syms = {}
        self.arrays = set()

    def get(self, name, array=False, positive=None):
        if name in self.syms:
            s = self.syms[name]
            if array:
                self.arrays.add(s)
            return s
        if positive is None:
            full = name.split("@")[0]
            base = full.split("[")[0]
            positive = any(base == p or full == p or (p.startswith("_") and base.endswith(p)) for p in POSITIVE)
        s = sp.Symbol(name, real=True, positive=True) if positive else sp.Symbol(name, real=True)
        self.syms[name] = s
        if array:
            self.arrays.add(s)
        return s


def has_array(e, table):
    """e varies along the summed axis: array symbols outside full reductions
    (SIG(...) is a scalar whatever it contains)."""
    if not any(s in table.arrays for s in e.free_symbols):
        return False
    if e.has(SIG):
        e = e.replace(lambda x: x.func == SIG, lambda x: sp.Integer(1))
    return any(s in table.arrays for s in e.free_symbols)


def norm_sigma(e, table):
    """Normal form w.r.t. linearity of SIG: SIG(a+b) = SIG(a)+SIG(b),
    SIG(c*e) = c*SIG(e) for c free of array symbols, SIG(c) = c*SIG(1)."""
    if e is None:
        return None

    def rewrite(x):
        if x.func == SIG:
            inner = sp.expand(rewrite(x.args[0]))
            terms = inner.args if inner.func == sp.Add else (inner,)
            out = 0
            for t in terms:
                coeff, rest = 1, 1
                if t.has(SIG):
                    # scalar reductions hidden inside expanded denominators: pull them out
                    t = sp.factor_terms(t)
                for f in (t.args if t.func == sp.Mul else (t,)):
                    if has_array(f, table):
                        rest = rest * f
                    else:
                        coeff = coeff * f
                out = out + coeff * SIG(rest)
            return out
        if not x.args:
            return x
        return x.func(*[rewrite(a) for a in x.args])

    return rewrite(e)


def lin_expand(e, table=None):
    """Distribute the linear uninterpreted functions over sums and pull scalar
    factors out (numbers; with a symbol table also every factor free of array
    symbols): SIG, SIGA (first argument), CROSS (bilinear, antisymmetric:
    arguments are put in canonical order with the sign)."""
    if e is None:
        return None

    def split(t):
        c, rest = sp.Integer(1), sp.Integer(1)
        for f in (t.args if t.func == sp.Mul else (t,)):
            if f.is_number or (table is not None and f.free_symbols and not has_array(f, table) and not f.atoms(sp.Function)):
                c = c * f
            else:
                rest = rest * f
        return c, rest

    def rw(x):
        if not x.args:
            return x
        args = [rw(a) for a in x.args]
        if x.func in (SIG, SIGA):
            inner = sp.expand(args[0])
            out = 0
            for t in (inner.args if inner.func == sp.Add else (inner,)):
                c, rest = split(t)
                if rest == 1 and x.func == SIG:
                    out = out + c * x.func(sp.Integer(1), *args[1:])
                elif t == 0:
                    continue
                else:
                    out = out + c * x.func(rest, *args[1:])
            return out
        if x.func == CROSS:
            a, b = sp.expand(args[0]), sp.expand(args[1])
            out = 0
            for ta in (a.args if a.func == sp.Add else (a,)):
                for tb in (b.args if b.func == sp.Add else (b,)):
                    if ta == 0 or tb == 0:
                        continue
                    ca, ra = split(ta)
                    cb, rb = split(tb)
                    if ra == rb:
                        continue
                    if sp.default_sort_key(ra) > sp.default_sort_key(rb):
                        out = out - ca * cb * CROSS(rb, ra)
                    else:
                        out = out + ca * cb * CROSS(ra, rb)
            return out
        return x.func(*args)

    return sp.expand(rw(sp.expand(e)))


def refute_constant(e, const, trials=3):
    """True when e is provably not identically ``const``: the symbols and the
    outermost applications of uninterpreted functions are treated as independent
    real unknowns; a point where the value differs refutes the identity (an
    identity in independent unknowns holds at every point)."""
    import random

    from sympy.core.function import AppliedUndef

    e = sp.sympify(e)
    rng = random.Random(20240611)
    hits = 0
    for _ in range(trials):
        atoms = {}

        def rep(x):
            if isinstance(x, (AppliedUndef, CAT)) or isinstance(x, sp.Symbol):
                if x not in atoms:
                    atoms[x] = sp.Float(rng.uniform(0.3, 1.7))
                return atoms[x]
            if not x.args:
                return x
            return x.func(*[rep(a) for a in x.args])

        try:
            val = complex(sp.N(rep(e)))
        except Exception:
            return False
        if abs(val - complex(const)) > 1e-6:
            hits += 1
    return hits == trials


def sdiff(e, s, table, unsig=False):
    """Derivative with SIG as a linear functional: d SIG(e)/ds = SIG(de/ds) for a
    scalar s; for an array symbol (unsig=True) the Jacobian row of SIG(e) with
    respect to the element-wise aligned array is de/ds itself."""

    if isinstance(e, sp.MatrixBase):
        return e.applyfunc(lambda x: sdiff(x, s, table, unsig))

    def d(x):
        if x.func == SIG:
            inner = d(x.args[0])
            if unsig:
                return inner
            return SIG(inner) if inner != 0 else sp.Integer(0)
        if x.func == sp.Add:
            return sp.Add(*[d(a) for a in x.args])
        if x.func == sp.Mul:
            out = 0
            for i, a in enumerate(x.args):
                da = d(a)
                if da != 0:
                    out = out + sp.Mul(*(x.args[:i] + (da,) + x.args[i + 1:]))
            return out
        if x.has(SIG):
            # chain rule through an outer function of SIG-terms
            sigs = list(x.atoms(SIG))
            reps = {sg: sp.Dummy("sg%d" % i) for i, sg in enumerate(sigs)}
            y = x.subs(reps)
            out = sp.diff(y, s)
            for sg, du in reps.items():
                out = out + sp.diff(y, du) * d(sg)
            return out.subs({v: k for k, v in reps.items()})
        return sp.diff(x, s)

    return d(e)


class _Timeout(BaseException):
    pass


_TIMER_ACTIVE = False


def _with_time_limit(seconds, fn, *args):
    """run fn(*args); None when it does not finish within the limit (computer algebra on a
    large residual can take arbitrarily long; an unfinished normalisation is 'undecided')"""
    import signal
    import threading

    global _TIMER_ACTIVE
    if threading.current_thread() is not threading.main_thread() or not hasattr(signal, "setitimer") or _TIMER_ACTIVE:
        return fn(*args)
    _TIMER_ACTIVE = True

    def handler(signum, frame):
        raise _Timeout()

    old = signal.signal(signal.SIGALRM, handler)
    signal.setitimer(signal.ITIMER_REAL, seconds)
    try:
        return fn(*args)
    except _Timeout:
        return None
    finally:
        signal.setitimer(signal.ITIMER_REAL, 0)
        signal.signal(signal.SIGALRM, old)
        _TIMER_ACTIVE = False


EQUAL_TIME_LIMIT = 25.0


def equal(a, b, table):
    """True / False / None(undecided) for a == b as expressions."""
    if a is None or b is None:
        return None
    return _with_time_limit(EQUAL_TIME_LIMIT, _equal, a, b, table)


def _equal(a, b, table):
    if a is None or b is None:
        return None
    if isinstance(a, sp.MatrixBase) or isinstance(b, sp.MatrixBase):
        if not (isinstance(a, sp.MatrixBase) and isinstance(b, sp.MatrixBase)) or a.shape != b.shape:
            if isinstance(b, sp.MatrixBase) and not isinstance(a, sp.MatrixBase) and a == 0:
                a = sp.zeros(*b.shape)
            elif isinstance(a, sp.MatrixBase) and not isinstance(b, sp.MatrixBase) and b == 0:
                b = sp.zeros(*a.shape)
            else:
                return None
        res = True
        for x, y in zip(list(a), list(b)):
            r = _equal(x, y, table)
            if r is False:
                return False
            if r is None:
                res = None
        return res
    try:
        r = norm_sigma(sp.expand(a - b), table)
        r = sp.simplify(sp.expand(r))
        if r == 0:
            return True
        r2 = sp.simplify(sp.together(sp.expand_trig(r)))
        if r2 == 0:
            return True
        r3 = sp.simplify(sp.powsimp(sp.expand_log(r2, force=True), force=True))
        if r3 == 0:
            return True
        num = sp.numer(sp.together(r3))
        num = sp.expand(num)
        if num == 0:
            return True
        # provably non-zero: c*SIG(m) with c, m products of powers of positive symbols / numbers
        nz = _nonzero_sig_form(r3, table)
        if nz:
            return False
        # provably non-zero: a non-zero polynomial in independent symbols (no transcendental atoms left)
        atoms = num.atoms(sp.Function)
        if not atoms and num.is_polynomial(*num.free_symbols):
            return False
        # atoms that are algebraically independent of each other and of the symbols for generic
        # inputs: transcendental functions of different arguments, full reductions (after
        # norm_sigma), slices of array-valued expressions, black-box helper results
        if any(f.func in (CROSS, SIGA) for f in atoms):
            # bilinear / linear normal form first: afterwards distinct cross products of atomic
            # vectors (arguments in canonical order) are independent of each other
            num = sp.expand(lin_expand(num, table))
            if num == 0:
                return True
            atoms = num.atoms(sp.Function)

        def indep(f):
            if isinstance(f, (sp.exp, sp.sin, sp.cos, sp.tan)) or f.func == SIG or f.func == SUB or f.func.__name__.startswith("H_"):
                return True
            if f.func == CROSS:
                # arguments that are monomials of (array) symbols: scalar factors were pulled out by lin_expand
                return all(a_.is_Symbol or (a_.func in (sp.Mul, sp.Pow) and not a_.atoms(sp.Function) and not any(x_.func == sp.Add for x_ in sp.preorder_traversal(a_))) for a_ in f.args)
            if f.func == MAXF:
                # max and sum of one array are independent; maxima of differently scaled copies are not
                return len({g_.args[0] for g_ in atoms if g_.func == MAXF}) == 1
            return False

        if all(indep(f) for f in atoms):
            # substitute the transcendental atoms by fresh symbols: still a non-zero polynomial?
            reps = {f: sp.Dummy("t%d" % i) for i, f in enumerate(sorted(atoms, key=str))}
            n2 = sp.expand(num.subs(reps))
            if n2 != 0 and n2.is_polynomial(*n2.free_symbols):
                # sin/cos are algebraically dependent (s^2+c^2=1): only decide when no such pair remains
                fs = {f.func for f in atoms}
                if len(fs & {sp.sin, sp.cos, sp.tan}) <= 1:
                    return False
        return None
    except Exception:
        return None


def _is_nonzero_monomial(e):
    """e is a product of non-zero numbers, positive symbols, and powers / logs
    that cannot vanish identically."""
    e = sp.powsimp(sp.factor_terms(e))
    for f in (e.args if e.func == sp.Mul else (e,)):
        if f.is_number:
            if f == 0:
                return False
            continue
        base = f.args[0] if f.func == sp.Pow else f
        if isinstance(base, sp.Symbol):
            continue
        if base.func == sp.Add and all(t.is_positive for t in base.args):
            continue
        if base.func == sp.log:
            continue
        return False
    return True


def _nonzero_sig_form(r, table):
    """True if r == sum_i c_i*SIG(m_i) where every c_i*SIG(m_i) is a strictly
    positive (or every one a strictly negative) quantity under the positivity
    assumptions of the symbol table: the sum cannot vanish."""
    try:
        r = sp.expand(norm_sigma(sp.expand(r), table))
        terms = r.args if r.func == sp.Add else (r,)
        signs = set()
        for t in terms:
            sigs = list(t.atoms(SIG))
            if len(sigs) != 1:
                return False
            sg = sigs[0]
            c = sp.simplify(t / sg)
            if c.has(SIG):
                return False
            if not _is_pos(sg.args[0]):
                return False
            if _is_pos(c):
                signs.add(1)
            elif _is_pos(-c):
                signs.add(-1)
            else:
                return False
        return len(signs) == 1
    except Exception:
        return False


def _is_pos(e):
    """strictly positive for all admissible values (positive symbols)."""
    if e.is_positive:
        return True
    e = sp.factor_terms(e)
    if e.func == sp.Mul:
        return all(_is_pos(f) for f in e.args)
    if e.func == sp.Pow:
        return _is_pos(e.args[0]) and e.args[1].is_real is not False
    if e.func == sp.Add:
        return all(_is_pos(t) for t in e.args)
    return False


class SymX(Domain):
    name = "SYMX"

    def __init__(self):
        super().__init__()
        self.table = SymTable()

    def bottom(self):
        return None

    def join(self, a, b):
        if a is None or b is None:
            return None
        try:
            if isinstance(a, sp.MatrixBase) or isinstance(b, sp.MatrixBase):
                return a if a == b else None
            return a if (a == b or sp.simplify(a - b) == 0) else None
        except Exception:
            return None

    # ---- symbols
    def pass_tag(self, it):
        for l in reversed(it.loops):
            if l.kind in ("cfglist",):
                return {"first": "@0", "generic": "@1", "generic2": "@2"}.get(l.tag, "@1")
        return ""

    def input_symbol(self, it, cell, v):
        name = cell[1]
        tag = self.pass_tag(it) if ("[i]" in name or "[0]" in name) else ""
        nm = name.replace("[0]", "[i]") + tag
        shape = v.shape
        array = not (shape is not None and len(shape) == 1 and shape[0] == 1)
        if cell[0] == "out":
            nm = "out:" + nm
        return self.table.get(nm, array=array)

    def cfg_symbol(self, it, v):
        if v.cx is None:
            return None
        tag = self.pass_tag(it) if ("[i]" in v.cx or "[0]" in v.cx) else ""
        return self.table.get("cfg:" + v.cx.replace("[0]", "[i]") + tag)

    # ---- stores
    def on_store(self, it, obj, v, ev, st):
        obj.dom["SYMX_ver"] = obj.dom.get("SYMX_ver", 0) + 1
        d = v.dom.get(self.name)
        if d is None:
            d = self.val_expr(it, v, st)
        op = ev.d.get("op")
        cur = obj.dom.get(self.name)
        whole = ev.d.get("whole") or (ev.d.get("region") == "whole")
        if st.ctrl:
            obj.dom[self.name] = None
            obj.dom["SYMX_partial"] = True
            return
        if not whole:
            # stores to parts of a cell: per-index expressions for literal indices
            reg = ev.d.get("region")
            key = _literal_index_key(reg)
            per = obj.dom.get("SYMX_idx")
            if key is not None:
                per = dict(per or {})
                if op == "=":
                    per[key] = d
                else:
                    per[key] = _apply(op, per.get(key, cur if cur is not None else None), d)
                obj.dom["SYMX_idx"] = per
            else:
                obj.dom["SYMX_partial"] = True
            if cur is not None and key is None:
                obj.dom[self.name] = None
            return
        if op == "=":
            obj.dom[self.name] = d
            obj.dom.pop("SYMX_idx", None)
            obj.dom.pop("SYMX_partial", None)
        else:
            obj.dom[self.name] = _apply(op, cur, d)
            per = obj.dom.get("SYMX_idx")
            if per:
                obj.dom["SYMX_idx"] = {k: _apply(op, x, d) for k, x in per.items()}

    def on_assign(self, it, name, v, stmt, st):
        # value numbering: a local whose defining expression is outside the supported
        # fragment becomes an opaque (array) atom, so identities around it can still be
        # compared within the same run
        if v.dom.get(self.name) is None and v.kind == "num" and v.sym is not None and v.cfg and not v.sym.free_symbols:
            v.dom[self.name] = sp.nsimplify(v.sym, rational=True)
            return
        if v.dom.get(self.name) is None and v.kind in ("arr", "num") and v.obj is None and (v.dep or v.cfg):
            ln = getattr(stmt, "lineno", 0)
            # definition site = line, enclosing loop passes, and the chain of call sites of inlined helpers
            site = "".join("c%d" % getattr(fr.callsite, "lineno", 0) for fr in it.frames[1:] if fr.callsite is not None)
            loops = "".join({"first": "a", "generic": "b", "generic2": "c"}.get(l.tag, "x" + str(l.tag).replace("lit", "")) for l in it.loops if l.kind != "cfglist")
            v.dom[self.name] = self.table.get("opq:%s@L%d%s%s%s" % (name, ln, site and ("_" + site), loops and ("_" + loops), self.pass_tag(it).replace("@", "p")), array=(v.kind == "arr"), positive=False)

    def on_aug(self, it, op, cur, rhs, res, st):
        a = cur.dom.get(self.name)
        if a is None:
            a = self.val_expr(it, cur, st)
        b = rhs.dom.get(self.name)
        if b is None:
            b = self.val_expr(it, rhs, st)
        d = _apply(op, a, b)
        if d is not None:
            res.dom[self.name] = d
        else:
            res.dom.pop(self.name, None)

    def val_expr(self, it, v, st):
        """Expression of a value that was not produced by on_expr (e.g. literals)."""
        if v.kind == "num" and v.sym is not None and v.cfg and not v.sym.free_symbols:
            return sp.nsimplify(v.sym, rational=True)
        return None

    # ---- expressions
    def on_expr(self, it, node, v, st):
        try:
            d = self.compute(it, node, v, st)
        except Exception:
            d = None
        self.nodeval[id(node)] = d
        if d is not None:
            v.dom[self.name] = d
        else:
            v.dom.pop(self.name, None)

    def heap_expr(self, v, st):
        if v.obj is not None and v.obj in st.heap and v.view == "whole":
            return st.heap[v.obj].dom.get(self.name)
        return None

    def compute(self, it, node, v, st):
        if isinstance(node, ast.Constant):
            if isinstance(node.value, bool) or not isinstance(node.value, (int, float)):
                return None
            return sp.nsimplify(node.value, rational=True)
        if isinstance(node, ast.Name):
            if v.obj is not None and v.obj in st.heap and v.view == "whole":
                # the heap cell is authoritative: element stores since the binding make
                # the expression attached to the local's value stale
                ob = st.heap[v.obj]
                if ob.dom.get("SYMX_partial") or ob.dom.get("SYMX_idx"):
                    # an array assembled piecewise: an opaque atom per version of its contents
                    return self.table.get("opq:obj:%s#%d%s" % (node.id, ob.dom.get("SYMX_ver", 0), self.pass_tag(it).replace("@", "p")), array=True, positive=False)
                if self.name in ob.dom:
                    return ob.dom[self.name]
            d = v.dom.get(self.name)
            if d is not None:
                return d
            h = self.heap_expr(v, st)
            if h is not None:
                return h
            if v.kind == "num" and v.sym is not None and v.cfg:
                if not v.sym.free_symbols:
                    return sp.nsimplify(v.sym, rational=True)
                return None
            if isinstance(v.extra, tuple) and v.extra and v.extra[0] == "global" and v.kind == "num":
                return self.table.get("const:" + v.extra[2], positive=True)
            return None
        if isinstance(node, ast.Attribute):
            if v.obj is not None and v.obj in st.heap and v.view == "whole":
                ob = st.heap[v.obj]
                if ob.dom.get("SYMX_partial") or ob.dom.get("SYMX_idx"):
                    return None
                if self.name in ob.dom and ob.dom[self.name] is None and ob.stored:
                    return None
            if isinstance(node.value, ast.Name) and node.value.id == "self":
                d = v.dom.get(self.name)
                if d is not None:
                    return d
                if v.cfg and v.cx and v.kind in ("cfgval", "num", "unknown"):
                    if v.kind == "num" and v.sym is not None and not v.sym.free_symbols:
                        return sp.nsimplify(v.sym, rational=True)
                    return self.cfg_symbol(it, v)
                return None
            if v.kind == "num" and v.sym is not None and v.cfg and not v.sym.free_symbols:
                return sp.nsimplify(v.sym, rational=True)  # np.pi
            if node.attr in ("real",):
                return self.of(node.value)
            if node.attr == "T":
                b = self.of(node.value)
                return b.T if isinstance(b, sp.MatrixBase) else b
            return None
        if isinstance(node, ast.Subscript):
            if isinstance(v.extra, tuple) and v.extra and v.extra[0] == "cell":
                cell = v.extra[1]
                if cell[0] == "in":
                    return self.input_symbol(it, cell, v)
                if cell[0] == "out":
                    h = st.heap.get(cell)
                    if h is not None and h.stored and it.frames[0].func.name in ("compute",):
                        return h.dom.get(self.name)
                    return self.input_symbol(it, cell, v)
                if cell[0] == "partials":
                    h = st.heap.get(cell)
                    return h.dom.get(self.name) if h is not None else None
                return None
            if v.kind == "cfgval" and v.cfg and v.cx:
                return self.cfg_symbol(it, v)
            base = self.of(node.value)
            if base is None:
                return None
            # x[0] of a scalar input / scalar expression
            s = canon_sub(node.slice)
            if isinstance(base, sp.Symbol):
                if base not in self.table.arrays and base.name.startswith("cfg:") and (s not in ("0", ":", "...") or (s == "0" and v.kind != "num")):
                    # element / slice of a configuration array: distinct from the whole and from other slices
                    self.table.arrays.add(base)
                if base not in self.table.arrays:
                    return base
                comp = _component_key(node.slice)
                if comp is not None:
                    return self.table.get("%s[...,%s]" % (base.name, comp), array=True, positive=False)
                if s in (":", "..."):
                    return base
                return self.table.get("%s[%s]" % (base.name, s), array=(v.kind != "num"), positive=base.is_positive)
            if isinstance(base, sp.MatrixBase) and base.shape[1] == 1 and s.lstrip("-").isdigit() and -base.shape[0] <= int(s) < base.shape[0]:
                return base[int(s), 0]
            if isinstance(base, sp.MatrixBase) and base.shape[1] == 1:
                # index held by an unrolled loop variable
                iv = self.of(node.slice)
                if iv is not None and getattr(iv, "is_Integer", False) and -base.shape[0] <= int(iv) < base.shape[0]:
                    return base[int(iv), 0]
            if s in ("0", ":", "...", "0,0") and not isinstance(base, sp.MatrixBase) and (not has_array(base, self.table) or s in (":", "...")):
                return base
            if not isinstance(base, sp.MatrixBase):
                # a part of an array-valued expression: uninterpreted function of the expression and the subscript
                return SUB(base, sp.Symbol(s))
            return None
        if isinstance(node, ast.UnaryOp):
            a = self.of(node.operand)
            if a is None:
                return None
            if isinstance(node.op, ast.USub):
                return -a
            if isinstance(node.op, ast.UAdd):
                return a
            return None
        if isinstance(node, ast.BinOp):
            a, b = self.of(node.left), self.of(node.right)
            if a is None or b is None:
                return None
            op = type(node.op)
            ma, mb = isinstance(a, sp.MatrixBase), isinstance(b, sp.MatrixBase)
            if ma or mb:
                if ma and mb:
                    if a.shape != b.shape:
                        return None
                    if op is ast.Add:
                        return a + b
                    if op is ast.Sub:
                        return a - b
                    if op is ast.Mult:
                        return sp.matrix_multiply_elementwise(a, b)
                    return None
                if op is ast.Mult:
                    return a * b
                if op is ast.Div and ma:
                    return a / b
                if op is ast.Add:
                    return (a + sp.ones(*a.shape) * b) if ma else (sp.ones(*b.shape) * a + b)
                if op is ast.Sub:
                    return (a - sp.ones(*a.shape) * b) if ma else (sp.ones(*b.shape) * a - b)
                return None
            if op is ast.Add:
                return a + b
            if op is ast.Sub:
                return a - b
            if op is ast.Mult:
                return a * b
            if op is ast.Div:
                return a / b
            if op is ast.Pow:
                return a ** b
            return None
        if isinstance(node, ast.IfExp):
            return self.join(self.of(node.body), self.of(node.orelse))
        if isinstance(node, (ast.List, ast.Tuple)):
            items = [self.of(e) for e in node.elts]
            if not items or any(x is None for x in items) or len(items) > 12:
                return None
            if all(isinstance(x, sp.MatrixBase) and x.shape[1] == 1 for x in items):
                n = items[0].shape[0]
                if all(x.shape[0] == n for x in items):
                    return sp.Matrix([list(x) for x in items])  # rows
                return None
            if any(isinstance(x, sp.MatrixBase) for x in items):
                return None
            if any(has_array(x, self.table) for x in items):
                return None
            return sp.Matrix(items)
        if isinstance(node, ast.Call):
            fn = unparse(node.func)
            short = fn.split(".")[-1]
            # callee resolved by the interpreter (aliases such as nlog = np.log)
            if isinstance(v.extra, tuple) and v.extra and v.extra[0] in ("ufunc", "reduce") and isinstance(v.extra[1], str):
                short = v.extra[1]
            args = [a.value if isinstance(a, ast.Starred) else a for a in node.args]
            ads = [self.of(a) for a in args]
            mod = it.frames[-1].func.mod
            root = node.func
            while isinstance(root, ast.Attribute):
                root = root.value
            is_module_fn = isinstance(node.func, ast.Attribute) and isinstance(root, ast.Name) and root.id in mod.imports and root.id not in st.env
            is_method = isinstance(node.func, ast.Attribute) and not is_module_fn
            # repository helper: the value carries the expression of its return
            fi = getattr(it, "last_inlined", {}).get(id(node))
            dv = v.dom.get(self.name)
            opaque_ret = dv is None or (isinstance(dv, sp.Symbol) and dv.name.startswith("opq:")) or (fi is not None and fi.name in KERNELS)
            if not is_module_fn and not is_method and dv is not None and not (opaque_ret and fi is not None):
                return dv
            if fi is not None and is_method and isinstance(root, ast.Name) and root.id == "self" and not opaque_ret:
                # a method of the same class interpreted at the call site (self._helper(x, y)): the
                # value carries the expression of its return in terms of the arguments' expressions
                return dv
            if fi is not None and "." not in fi.qual and not node.keywords and ads and all(a_ is not None for a_ in ads):
                ads = [sp.ImmutableMatrix(a_) if isinstance(a_, sp.MatrixBase) else a_ for a_ in ads]
                # a module-level repository helper whose body is outside the fragment: an
                # uninterpreted function of its arguments (helpers are pure functions of them)
                return sp.Function("H_" + fi.name)(*ads)
            if not is_module_fn and not is_method and dv is not None:
                return dv
            if is_method:
                base = self.of(node.func.value)
                if base is None:
                    return None
                if isinstance(base, sp.MatrixBase):
                    if short in ("flatten", "ravel"):
                        return sp.Matrix([x for x in base.tolist() for x in x]) if base.shape[1] > 1 else base
                    if short in ("copy", "astype", "squeeze"):
                        return base
                    if short == "item" and base.shape == (1, 1):
                        return base[0, 0]
                    return None
                if short == "item":
                    return base if not has_array(base, self.table) else None
                if short in ("copy", "flatten", "ravel", "reshape", "squeeze", "astype", "real"):
                    return base
                if short == "sum" and not node.keywords and not args:
                    return SIG(base) if has_array(base, self.table) else base
                return None
            if short in ("array", "asarray") and ads and ads[0] is not None:
                return ads[0]
            if short == "einsum" and len(args) == 3 and isinstance(args[0], ast.Constant) and isinstance(args[0].value, str):
                # broadcasting product without contraction ("ijk,j->ijk"): element-wise product
                spec = args[0].value.replace(" ", "")
                ops = list(ads[1:3])
                for i_, a_ in enumerate(args[1:3]):
                    if ops[i_] is None and isinstance(a_, ast.Name):
                        # an operand assembled element-wise (e.g. a stack of small matrices): opaque array
                        ops[i_] = self.table.get("opq:obj:%s" % a_.id, array=True, positive=False)
                if "->" in spec and ops[0] is not None and ops[1] is not None and (isinstance(ops[0], sp.MatrixBase) != isinstance(ops[1], sp.MatrixBase)):
                    # broadcasting copy of a small constant vector along new axes: ones(...) x vector
                    ins, outp = spec.split("->")
                    parts = ins.split(",")
                    o_, m_ = (ops[0], ops[1]) if isinstance(ops[1], sp.MatrixBase) else (ops[1], ops[0])
                    if len(parts) == 2 and set(outp) == set(parts[0]) | set(parts[1]) and len(set(outp)) == len(outp) and o_ == 1 and ads[1] is not None and ads[2] is not None:
                        return m_
                    return None
                if "->" in spec and ops[0] is not None and ops[1] is not None and not isinstance(ops[0], sp.MatrixBase) and not isinstance(ops[1], sp.MatrixBase):
                    ins, outp = spec.split("->")
                    parts = ins.split(",")
                    if len(parts) == 2 and set(outp) == set(parts[0]) | set(parts[1]) and len(set(outp)) == len(outp):
                        if ads[1] is None or ads[2] is None:
                            return None
                        return ads[1] * ads[2]
                    if len(parts) == 2:
                        return EINSUM(sp.Symbol(spec), ops[0], ops[1])
                return None
            if short in ("hstack", "concatenate", "append", "vstack"):
                elts = list(args[0].elts) if (len(args) >= 1 and isinstance(args[0], (ast.Tuple, ast.List)) and short != "append") else list(args)
                parts = [self.of(e) for e in elts]
                if not parts or any(p_ is None or isinstance(p_, sp.MatrixBase) for p_ in parts):
                    return None
                return CAT(*parts)
            if short == "tile" and ads and isinstance(ads[0], sp.MatrixBase):
                return ads[0]  # repetition of a small constant block (the block is what is compared)
            if short in ("float", "complex", "real", "asarray", "array", "squeeze", "copy", "atleast_1d", "float64") and len(ads) == 1:
                return ads[0]
            if short == "log10" and ads and ads[0] is not None:
                return sp.log(ads[0]) / sp.log(10)
            if short in FUNCS and len(ads) == 1 and ads[0] is not None:
                return FUNCS[short](ads[0])
            if short == "sum" and ads and ads[0] is not None and not [k for k in node.keywords if k.arg == "axis"] and len(args) == 1:
                return SIG(ads[0]) if has_array(ads[0], self.table) else ads[0]
            if short == "sum" and ads and ads[0] is not None and len(args) == 1:
                ax = [k.value for k in node.keywords if k.arg == "axis"]
                if ax and isinstance(ax[0], ast.Constant) and isinstance(ax[0].value, int) and not isinstance(ads[0], sp.MatrixBase):
                    return SIGA(ads[0], sp.Integer(ax[0].value))
                return None
            if short == "cross" and len(ads) >= 2 and ads[0] is not None and ads[1] is not None and not isinstance(ads[0], sp.MatrixBase) and not isinstance(ads[1], sp.MatrixBase):
                return CROSS(ads[0], ads[1])
            if short in ("max", "amax") and ads and ads[0] is not None and len(args) == 1 and not node.keywords:
                return MAXF(ads[0]) if has_array(ads[0], self.table) else ads[0]
            if short in ("minimum", "maximum", "fmin", "fmax") and len(ads) == 2 and None not in ads and not any(isinstance(a_, sp.MatrixBase) for a_ in ads):
                return (MIN2 if short in ("minimum", "fmin") else MAX2)(*sorted(ads, key=sp.default_sort_key))
            if short == "clip" and len(ads) == 3 and None not in ads and not any(isinstance(a_, sp.MatrixBase) for a_ in ads):
                return MIN2(*sorted([MAX2(*sorted([ads[0], ads[1]], key=sp.default_sort_key)), ads[2]], key=sp.default_sort_key))
            if short == "outer" and len(ads) == 2 and None not in ads and not any(isinstance(a_, sp.MatrixBase) for a_ in ads):
                # outer product with a vector of ones: broadcasting copy along a new axis
                if ads[1] == 1:
                    return ads[0]
                if ads[0] == 1:
                    return ads[1]
                return None
            if short in ("eye", "identity"):
                return EYE
            if short in ("ones", "ones_like"):
                return sp.Integer(1)
            if short in ("zeros", "zeros_like"):
                return sp.Integer(0)
            if short == "power" and len(ads) == 2 and None not in ads:
                return ads[0] ** ads[1]
            if short in ("deg2rad", "radians") and ads and ads[0] is not None:
                return ads[0] * sp.pi / 180
            return None
        return None


def canon_sub(sl):
    """canonical text of a subscript: lower bound 0 dropped, no spaces."""
    elts = list(sl.elts) if isinstance(sl, ast.Tuple) else [sl]
    out = []
    for e in elts:
        if isinstance(e, ast.Slice):
            lo = "" if (e.lower is None or (isinstance(e.lower, ast.Constant) and e.lower.value == 0)) else unparse(e.lower).replace(" ", "")
            hi = "" if e.upper is None else unparse(e.upper).replace(" ", "")
            st = "" if e.step is None else ":" + unparse(e.step).replace(" ", "")
            out.append("%s:%s%s" % (lo, hi, st))
        else:
            out.append(unparse(e).replace(" ", ""))
    # trailing full slices are redundant
    while len(out) > 1 and out[-1] == ":":
        out.pop()
    return ",".join(out)


def _apply(op, cur, d):
    if cur is None or d is None:
        return None
    try:
        ma, mb = isinstance(cur, sp.MatrixBase), isinstance(d, sp.MatrixBase)
        if ma != mb:
            # numpy broadcasting of a small vector against an array symbol is outside the fragment
            if (ma and d.free_symbols) or (mb and cur.free_symbols):
                if op in ("*=", "/=") and ma and not mb:
                    return cur * d if op == "*=" else cur / d
                return None
        if op == "+=":
            return cur + d
        if op == "-=":
            return cur - d
        if op == "*=":
            return sp.matrix_multiply_elementwise(cur, d) if (ma and mb) else cur * d
        if op == "/=":
            return cur / d
    except Exception:
        return None
    return None


def _component_key(sl):
    """'k' when the subscript selects component k of the last axis with full
    slices elsewhere (x[:, k], x[:, :, k])."""
    elts = list(sl.elts) if isinstance(sl, ast.Tuple) else [sl]
    if len(elts) < 2:
        return None
    last = elts[-1]
    if not (isinstance(last, ast.Constant) and isinstance(last.value, int)):
        return None
    for e in elts[:-1]:
        if not (isinstance(e, ast.Slice) and e.lower is None and e.upper is None and e.step is None):
            return None
    return str(last.value)


def _literal_index_key(reg):
    """key of an element store: literal indices, ':' for full axes and '*' for
    the generic element of a range loop (row-generic definition)."""
    if reg in (None, "whole"):
        return None
    key = []
    for ax in reg:
        if ax[0] == "all":
            key.append(":")
        elif ax[0] == "index" and ax[1].is_number:
            key.append(str(int(ax[1])))
        elif ax[0] == "index" and isinstance(ax[1], sp.Symbol) and "_L" in ax[1].name:
            key.append("*")
        else:
            return None
    return ",".join(key)


register_domain(SymX())
