"""UNIT domain: physical dimension inference (C06-U1/U2, C08).

A value is
  None        unknown (configuration data without declared units, opaque calls):
              never an alarm,
  POLY        a numeric literal / unit-less constant: adapts to the other
              operand of + - compare, is dimensionless in products,
  Dim(...)    a concrete dimension: exponents of (length, mass, time,
              temperature) as Fractions.  Angles (deg, rad) are dimensionless;
              unit systems (ft / m, slug / kg) are identified: only the
              dimension is tracked, OpenMDAO converts between systems.

Sources: declared units of the component's inputs (setup views of the same
valuation).  Inputs declared without units are *unknown*, not dimensionless
(several arrays mix N and N m, or m and rad, by design).
"""
import ast
from fractions import Fraction

from .absval import register_domain
from .domains import Domain
from .load import unparse

BASE = {
    "m": (1, 0, 0, 0), "ft": (1, 0, 0, 0), "km": (1, 0, 0, 0), "inch": (1, 0, 0, 0), "nmi": (1, 0, 0, 0),
    "kg": (0, 1, 0, 0), "slug": (0, 1, 0, 0), "lbm": (0, 1, 0, 0), "g": (0, 1, 0, 0),
    "s": (0, 0, 1, 0), "h": (0, 0, 1, 0), "min": (0, 0, 1, 0),
    "K": (0, 0, 0, 1), "degR": (0, 0, 0, 1), "degK": (0, 0, 0, 1),
    "N": (1, 1, -2, 0), "lbf": (1, 1, -2, 0), "kN": (1, 1, -2, 0),
    "Pa": (-1, 1, -2, 0), "psi": (-1, 1, -2, 0), "kPa": (-1, 1, -2, 0), "MPa": (-1, 1, -2, 0), "GPa": (-1, 1, -2, 0),
    "J": (2, 1, -2, 0), "W": (2, 1, -3, 0),
    "deg": (0, 0, 0, 0), "rad": (0, 0, 0, 0),
}


class Dim:
    __slots__ = ("e",)

    def __init__(self, e=(0, 0, 0, 0)):
        self.e = tuple(Fraction(x) for x in e)

    def __eq__(self, o):
        return isinstance(o, Dim) and self.e == o.e

    def __hash__(self):
        return hash(self.e)

    def mul(self, o, sg=1):
        return Dim(tuple(a + sg * b for a, b in zip(self.e, o.e)))

    def pow(self, k):
        k = Fraction(k)
        return Dim(tuple(a * k for a in self.e))

    @property
    def dimensionless(self):
        return all(a == 0 for a in self.e)

    def __repr__(self):
        if self.dimensionless:
            return "1"
        out = []
        for n, a in zip(("m", "kg", "s", "K"), self.e):
            if a == 0:
                continue
            out.append(n if a == 1 else "%s^%s" % (n, a))
        return " ".join(out)


class _Poly:
    def __repr__(self):
        return "number"


class _Zero(_Poly):
    def __repr__(self):
        return "zero"


POLY = _Poly()
ZERO = _Zero()  # a literal zero / zeros(): commensurable with everything, never a dimensional constant
ONE = Dim()


def _poly(x):
    return isinstance(x, _Poly)


# inputs / outputs that hold quantities of different dimensions in one array by design:
# their declared unit is the unit of the first block only, so they are typed unknown
MIXED_ARRAYS = {
    "disp": "6-dof nodal displacements: translations (m) and rotations (rad), declared m",
    "disp_aug": "displacements plus Lagrange multipliers",
    "loads": "nodal forces (N) and moments (N m), declared N",
    "total_loads": "nodal forces (N) and moments (N m), declared N",
    "struct_weight_loads": "nodal forces (N) and moments (N m), declared N",
    "fuel_weight_loads": "nodal forces (N) and moments (N m), declared N",
    "loads_from_point_masses": "nodal forces (N) and moments (N m), declared N",
    "loads_from_thrusts": "nodal forces (N) and moments (N m), declared N",
    "forces": "FEM right-hand side: forces, moments and zero constraint rows, declared N",
}


def parse_units(s):
    """Dimension of an OpenMDAO unit string; None when not understood."""
    if s is None:
        return None
    s = s.strip()
    if not s:
        return None
    try:
        tree = ast.parse(s, mode="eval").body
    except SyntaxError:
        return None

    def ev(n):
        if isinstance(n, ast.Name):
            b = BASE.get(n.id)
            return Dim(b) if b is not None else None
        if isinstance(n, ast.Constant) and isinstance(n.value, (int, float)):
            return ONE
        if isinstance(n, ast.BinOp):
            a, b = ev(n.left), ev(n.right) if not isinstance(n.op, ast.Pow) else None
            if isinstance(n.op, ast.Pow):
                if a is None:
                    return None
                try:
                    k = ast.literal_eval(n.right)
                except Exception:
                    return None
                return a.pow(Fraction(k).limit_denominator(100))
            if a is None or b is None:
                return None
            if isinstance(n.op, ast.Mult):
                return a.mul(b)
            if isinstance(n.op, ast.Div):
                return a.mul(b, -1)
        if isinstance(n, ast.UnaryOp) and isinstance(n.op, ast.USub):
            return ev(n.operand)
        return None

    return ev(tree)


DIMLESS_FUNCS = {"sin", "cos", "tan", "exp", "log", "log10", "log2", "sinh", "cosh", "tanh", "arcsin", "arccos", "arctan", "deg2rad", "rad2deg", "radians", "degrees"}
SAME = {"sum", "mean", "max", "min", "amax", "amin", "abs", "absolute", "fabs", "real", "imag", "copy", "squeeze", "atleast_1d", "atleast_2d", "tile", "repeat", "flip", "flipud", "fliplr", "transpose", "reshape", "ravel", "flatten", "float", "complex", "asarray", "array", "negative", "diff", "cumsum", "trapz", "sort", "roll", "norm", "ascontiguousarray", "astype", "conj", "broadcast_to", "expand_dims", "swapaxes", "diag", "trace", "average", "median", "float64"}
PROD = {"cross", "multiply", "outer", "dot", "matmul", "inner", "kron", "tensordot", "vdot"}
BUILD = {"concatenate", "hstack", "vstack", "append", "stack", "column_stack", "dstack", "block"}
NUMBERS = {"zeros", "ones", "empty", "eye", "identity", "zeros_like", "ones_like", "empty_like", "arange", "full", "len", "int", "range", "shape", "size", "ndim"}


# variables declared without units although they carry a dimension (typed unknown): name -> reason
UNDECLARED = {
    "local_stiff": "element stiffness blocks: N/m, N and N m entries in one array",
    "local_stiff_transformed": "element stiffness blocks: N/m, N and N m entries in one array",
    "K": "assembled stiffness matrix: mixed entries",
    "transform": "per-element rotation matrices (dimensionless) -- listed because LocalStiffTransformed mixes it with local_stiff",
    "transformation_matrix": "rotation matrices minus identity: dimensionless",
}

# named module-level constants with a physical dimension
NAMED_CONSTANTS = {"grav_constant": "m/s**2"}

_DOC_CACHE = {}


def doc_cfg_units(root):
    """Units column of the surface-dictionary reference in the repository's own
    documentation: key -> Dim (dimensionless when the column is empty)."""
    import os
    import re

    if root in _DOC_CACHE:
        return _DOC_CACHE[root]
    out = {}
    p = os.path.join(root, "openaerostruct", "docs", "user_reference", "mesh_surface_dict.rst")
    try:
        lines = open(p, encoding="utf-8").read().splitlines()
    except OSError:
        _DOC_CACHE[root] = out
        return out
    row = None
    rows = []
    for ln in lines:
        m = re.match(r"^\s*\* - (.*)$", ln)
        if m:
            if row:
                rows.append(row)
            row = [m.group(1).strip()]
            continue
        m = re.match(r"^\s{4,}- ?(.*)$", ln)
        if m and row is not None:
            row.append(m.group(1).strip())
            continue
        if not ln.strip() and row:
            rows.append(row)
            row = None
    if row:
        rows.append(row)
    for r in rows:
        if len(r) != 4 or r[0] == "Key":
            continue
        key = r[0].replace(" ", "").strip("`")
        u = r[2].replace("^", "**").strip()
        if not u:
            out[key] = ONE
        else:
            d = parse_units(u)
            if d is not None:
                out[key] = d
    _DOC_CACHE[root] = out
    return out


class Unit(Domain):
    name = "UNIT"

    def __init__(self):
        super().__init__()
        self.conflicts = []  # (rel, lineno, qual, kind, msg)
        self.dimconst = []  # (rel, lineno, qual, literal text, dim)
        self._units = None

    def bottom(self):
        return None

    def join(self, a, b):
        if a is None or b is None:
            return None
        if _poly(a):
            return b if not (_poly(b) and a is POLY) else POLY
        if _poly(b):
            return a
        return a if a == b else None

    # ---- declared units
    def declared(self, it):
        if self._units is None:
            from .model import component_model

            self._units = {}
            try:
                m = component_model(it.repo, it.cls)
                views = [sv for sv in m.setup_views if sv.run.compatible(it.sigma)] or m.setup_views
            except Exception:
                views = []
            for sv in views:
                for tab in (sv.inputs, sv.outputs):
                    for n, e in tab.items():
                        key = n.replace("[0]", "[i]")
                        if "units" in (e.kwargs or {}) and e.units is None:
                            d = "?"
                        elif e.units is None:
                            d = None
                        else:
                            d = parse_units(e.units) or "?"
                        if key in self._units and self._units[key] != d:
                            self._units[key] = "?"
                        else:
                            self._units[key] = d
        return self._units

    def cell_unit(self, it, cell):
        name = cell[1].replace("[0]", "[i]")
        base = name.split(">_")[-1] if ">_" in name else name
        if base in MIXED_ARRAYS:
            return None
        dec = self.declared(it)
        d = dec.get(name)
        if d == "?":
            return None
        if d is None:
            # declared without units: dimensionless unless listed as an undeclared dimensional array
            if name in dec and base not in UNDECLARED:
                return ONE
            return None
        return d

    def conflict(self, it, node, kind, msg):
        fr = it.frames[-1].func
        self.conflicts.append((fr.mod.rel, getattr(node, "lineno", 0), fr.qual, kind, msg))

    # ---- operations
    def add(self, it, node, a, b, la=None, lb=None):
        if a is None or b is None:
            # an unknown operand is assumed to be commensurable with a known dimension
            o = a if b is None else b
            return o if isinstance(o, Dim) else None
        if _poly(a) and _poly(b):
            return ZERO if (a is ZERO and b is ZERO) else POLY
        if _poly(a) or _poly(b):
            d = b if _poly(a) else a
            lit = la if _poly(a) else lb
            z = a if _poly(a) else b
            if z is not ZERO and not d.dimensionless and lit is not None and not _is_zero(lit):
                fr = it.frames[-1].func
                txt = unparse(lit)[:40]
                # a module-level numeric constant is reported with its value: the set of inputs for which the
                # dimensional constant matters depends on it, so a finding keyed on `tol` alone would also
                # cover `tol` raised by four orders of magnitude
                if isinstance(lit, ast.Name):
                    asg = fr.mod.global_assigns.get(lit.id, [])
                    if len(asg) == 1 and isinstance(asg[0], ast.Assign) and isinstance(asg[0].value, ast.Constant) and isinstance(asg[0].value.value, (int, float)) and not isinstance(asg[0].value.value, bool):
                        txt = "%s=%r" % (txt, asg[0].value.value)
                self.dimconst.append((fr.mod.rel, getattr(node, "lineno", 0), fr.qual, txt, d))
            return d
        if a != b:
            self.conflict(it, node, "add", "combines quantities of dimension [%s] and [%s] with + / - / comparison: %s" % (a, b, " ".join(unparse(node).split())[:90]))
            return None
        return a

    def mul(self, a, b, sg=1):
        if a is ZERO and sg == 1:
            return ZERO
        if b is ZERO and sg == 1:
            return ZERO
        if a is ZERO:
            return ZERO
        if a is None or b is None:
            return None
        if _poly(a) and _poly(b):
            return POLY
        if _poly(a):
            return b if sg == 1 else b.pow(-1)
        if _poly(b):
            return a
        return a.mul(b, sg)

    # ---- hooks
    def on_store(self, it, obj, v, ev, st):
        d = v.dom.get(self.name)
        if d is None and v.kind == "num" and v.cfg and v.sym is not None and not v.sym.free_symbols:
            d = POLY
        op = ev.d.get("op")
        oid = getattr(obj, "oid", None) or ev.d.get("obj")
        if isinstance(oid, tuple) and len(oid) == 2 and oid[0] in ("in", "out"):
            nm = oid[1].replace("[0]", "[i]")
            if (nm.split(">_")[-1] if ">_" in nm else nm) in MIXED_ARRAYS:
                obj.dom[self.name] = None
                obj.dom["UNIT_mixed"] = True
                return
        seen = self.name in obj.dom
        if seen:
            cur = obj.dom.get(self.name)
        else:
            # first store into this cell: what it held so far is what its creating expression gave
            base = ev.d.get("base")
            cur = base.dom.get(self.name) if (base is not None and base.kind != "vec") else None
            if base is not None and base.kind == "vec":
                cell = ev.d.get("cell")
                cur = ZERO if (cell and cell[0] in ("out", "partials")) else None
        whole = ev.d.get("whole") or ev.d.get("region") == "whole"
        cs = ",".join(ev.d.get("csubs") or ())
        if not whole and cs and op in ("=", "+=", "-="):
            # piecewise filling of an array: remember the dimension stored per subscript text
            regs = obj.dom.get("UNIT_regions")
            if regs is None:
                regs = {"<rest>": cur}  # what the array held before the first partial store
            regs = dict(regs)
            prev = regs.get(cs, regs.get("<rest>"))
            if op == "=":
                regs[cs] = d
            else:
                regs[cs] = self.add(it, ev.node, prev, d) if (prev is not None and d is not None and not (isinstance(prev, Dim) and isinstance(d, Dim) and prev != d)) else (d if _poly(prev) else None)
                if isinstance(prev, Dim) and isinstance(d, Dim) and prev != d:
                    obj.dom["UNIT_mixed"] = True
            obj.dom["UNIT_regions"] = regs
            vals = list(regs.values())
            if any(x is None for x in vals):
                new = None
            else:
                conc = {x for x in vals if not _poly(x)}
                new = next(iter(conc)) if len(conc) == 1 else (ZERO if not conc else None)
                if len(conc) > 1:
                    obj.dom["UNIT_mixed"] = True
            if obj.dom.get("UNIT_mixed"):
                new = None
            obj.dom[self.name] = new
            return
        if whole:
            obj.dom.pop("UNIT_regions", None)
            if op == "=":
                obj.dom.pop("UNIT_mixed", None)
        if op == "=":
            if whole or _poly(cur):
                new = d
            elif cur is None or d is None:
                new = None
            else:
                # element / slice store: arrays may legitimately mix dimensions (loads: N and N m)
                new = self.join(cur, d)
                if not _poly(d) and cur != d:
                    obj.dom["UNIT_mixed"] = True
        elif op in ("+=", "-="):
            if not whole and cur is not None and d is not None and not _poly(cur) and not _poly(d) and cur != d:
                obj.dom["UNIT_mixed"] = True
                new = None
            elif obj.dom.get("UNIT_mixed"):
                new = None
            else:
                new = self.add(it, ev.node, cur, d)
        elif op in ("*=", "/="):
            if not whole and not _poly(d):
                # only a part of the array is rescaled: no single dimension describes the whole any more
                obj.dom["UNIT_mixed"] = True
                new = None
            else:
                new = self.mul(cur, d, 1 if op == "*=" else -1) if not obj.dom.get("UNIT_mixed") else None
        else:
            new = None
        if obj.dom.get("UNIT_mixed"):
            new = None
        obj.dom[self.name] = new

    def on_aug(self, it, op, cur, rhs, res, st):
        a = cur.dom.get(self.name)
        b = rhs.dom.get(self.name)
        if a is None and cur.kind == "num" and cur.cfg and cur.sym is not None and not cur.sym.free_symbols:
            a = POLY
        if b is None and rhs.kind == "num" and rhs.cfg and rhs.sym is not None and not rhs.sym.free_symbols:
            b = POLY
        stmt = getattr(it, "cur_stmt", None)
        if op in ("+=", "-="):
            d = self.add(it, stmt, a, b)
        elif op == "*=":
            d = self.mul(a, b)
        elif op == "/=":
            d = self.mul(a, b, -1)
        else:
            d = None
        if d is not None:
            res.dom[self.name] = d
        else:
            res.dom.pop(self.name, None)

    def on_expr(self, it, node, v, st):
        try:
            d = self.compute(it, node, v, st)
        except Exception:
            d = None
        self.nodeval[id(node)] = d
        if d is not None:
            v.dom[self.name] = d
        else:
            v.dom.pop(self.name, None)

    def heap_unit(self, v, st):
        if v.obj is not None and v.obj in st.heap and self.name in st.heap[v.obj].dom:
            return True, st.heap[v.obj].dom.get(self.name)
        return False, None

    def compute(self, it, node, v, st):
        if isinstance(node, ast.Constant):
            if isinstance(node.value, (int, float, complex)) and not isinstance(node.value, bool):
                return ZERO if node.value == 0 else POLY
            return None
        if isinstance(node, ast.Name):
            if isinstance(v.extra, tuple) and len(v.extra) == 3 and v.extra[0] == "global" and v.extra[2] in NAMED_CONSTANTS:
                return parse_units(NAMED_CONSTANTS[v.extra[2]])
            ok, h = self.heap_unit(v, st)
            if ok:
                return h
            d = v.dom.get(self.name)
            if d is None and v.kind == "num" and v.cfg and v.sym is not None and not v.sym.free_symbols:
                return POLY
            return d
        if isinstance(node, (ast.Attribute, ast.Subscript)) and v.kind == "cfgval" and v.cfg and v.cx:
            import re as _re

            m_ = _re.search(r"\[['\"](\w+)['\"]\]$", v.cx)
            if m_:
                du = doc_cfg_units(it.repo.root).get(m_.group(1))
                if du is not None and m_.group(1) not in ("mesh",):
                    return du
        if isinstance(node, ast.Attribute):
            if node.attr in ("T", "real", "imag", "flat"):
                return self.of(node.value)
            if node.attr in ("shape", "size", "dtype", "ndim"):
                return POLY
            if node.attr == "pi":
                return POLY
            ok, h = self.heap_unit(v, st)
            if ok:
                return h
            d = v.dom.get(self.name)
            if d is None and v.kind == "num" and v.cfg and v.sym is not None and not v.sym.free_symbols:
                return POLY
            return d
        if isinstance(node, ast.Subscript):
            if isinstance(v.extra, tuple) and v.extra and v.extra[0] == "cell":
                cell = v.extra[1]
                if cell[0] == "in":
                    return self.cell_unit(it, cell)
                if cell[0] == "out":
                    h = st.heap.get(cell)
                    if h is not None and h.stored and self.name in h.dom:
                        return h.dom.get(self.name)
                    return self.cell_unit(it, cell)
                h = st.heap.get(cell)
                return h.dom.get(self.name) if h is not None else None
            if v.obj is not None and v.obj in st.heap:
                regs = st.heap[v.obj].dom.get("UNIT_regions")
                if regs:
                    from .symx import canon_sub

                    return _region_read(regs, canon_sub(node.slice))
            base = self.of(node.value)
            if base is None:
                ok, h = self.heap_unit(v, st)
                if ok:
                    return h
                d = v.dom.get(self.name)
                return d
            return base
        if isinstance(node, ast.UnaryOp):
            return self.of(node.operand)
        if isinstance(node, ast.BinOp):
            a, b = self.of(node.left), self.of(node.right)
            op = type(node.op)
            if op in (ast.Add, ast.Sub):
                return self.add(it, node, a, b, node.left, node.right)
            if op in (ast.Mult, ast.MatMult):
                return self.mul(a, b)
            if op in (ast.Div, ast.FloorDiv):
                return self.mul(a, b, -1)
            if op is ast.Mod:
                return a
            if op is ast.Pow:
                if a is None:
                    return None
                if _poly(a):
                    return a
                k = _literal_number(node.right)
                if k is not None:
                    return a.pow(Fraction(k).limit_denominator(1000))
                if a.dimensionless:
                    return a
                return None
            return None
        if isinstance(node, ast.Compare):
            vals = [node.left] + list(node.comparators)
            ds = [self.of(x) for x in vals]
            for i in range(len(ds) - 1):
                self.add(it, node, ds[i], ds[i + 1], vals[i], vals[i + 1])
            return POLY
        if isinstance(node, ast.BoolOp):
            return POLY
        if isinstance(node, ast.IfExp):
            return self.join(self.of(node.body), self.of(node.orelse))
        if isinstance(node, (ast.Tuple, ast.List)):
            d = ZERO
            for e in node.elts:
                x = self.of(e)
                if x is None:
                    return None
                if not _poly(d) and not _poly(x) and d != x:
                    return None
                d = self.join(d, x)
            return d
        if isinstance(node, ast.Call):
            fn = unparse(node.func)
            short = fn.split(".")[-1]
            if isinstance(v.extra, tuple) and v.extra and v.extra[0] in ("ufunc", "reduce") and isinstance(v.extra[1], str):
                short = v.extra[1]
            args = [a.value if isinstance(a, ast.Starred) else a for a in node.args]
            ads = [self.of(a) for a in args]
            mod = it.frames[-1].func.mod
            root = node.func
            while isinstance(root, ast.Attribute):
                root = root.value
            is_module_fn = isinstance(node.func, ast.Attribute) and isinstance(root, ast.Name) and root.id in mod.imports and root.id not in st.env
            is_method = isinstance(node.func, ast.Attribute) and not is_module_fn
            if not is_module_fn and not is_method:
                if v.dom.get(self.name) is not None:
                    return v.dom[self.name]  # inlined repository helper
                if short in ("float", "complex", "abs", "max", "min", "sum"):
                    if short in ("max", "min") and len(ads) > 1:
                        d = ads[0]
                        for x, nx in zip(ads[1:], args[1:]):
                            d = self.add(it, node, d, x, args[0], nx)
                        return d
                    return ads[0] if ads else None
                if short in ("len", "int", "range", "round"):
                    return POLY
                # a bare name bound by `from numpy... import f`: fall through to the numpy table
                if not (isinstance(node.func, ast.Name) and node.func.id in mod.imports):
                    return None
            if is_method:
                base = self.of(node.func.value)
                if short in SAME or short in ("item", "tolist", "clip"):
                    return base
                if short in ("dot",):
                    return self.mul(base, ads[0] if ads else None)
                if short in ("fill",):
                    return None
                return None
            if short in ("zeros", "zeros_like"):
                return ZERO
            if short in NUMBERS:
                return POLY
            if short == "linspace":
                d = ads[0] if ads else None
                return self.join(d, ads[1]) if len(ads) > 1 and d is not None and ads[1] is not None else (d if d is not None else (ads[1] if len(ads) > 1 else None))
            if short in SAME:
                return ads[0] if ads else None
            if short == "sqrt":
                a = ads[0] if ads else None
                if a is None or _poly(a):
                    return a
                return a.pow(Fraction(1, 2))
            if short in ("square",):
                a = ads[0] if ads else None
                return a if (a is None or _poly(a)) else a.pow(2)
            if short == "power" and len(ads) == 2:
                a = ads[0]
                if a is None or _poly(a):
                    return a
                k = _literal_number(args[1])
                return a.pow(Fraction(k).limit_denominator(1000)) if k is not None else (a if a.dimensionless else None)
            if short in DIMLESS_FUNCS:
                a = ads[0] if ads else None
                if a is not None and not _poly(a) and not a.dimensionless:
                    self.conflict(it, node, "transcendental", "%s() of a quantity of dimension [%s]: %s" % (short, a, " ".join(unparse(node).split())[:80]))
                    return None
                return ONE if a is not None else None
            if short == "arctan2" and len(ads) == 2:
                self.add(it, node, ads[0], ads[1], args[0], args[1])
                return ONE
            if short in PROD and len(ads) >= 2:
                return self.mul(ads[0], ads[1])
            if short == "einsum":
                d = POLY
                for x in ads[1:]:
                    d = self.mul(d, x)
                    if d is None:
                        return None
                return d
            if short in BUILD:
                elts = list(args[0].elts) if (args and isinstance(args[0], (ast.Tuple, ast.List)) and short != "append") else list(args[:2] if short == "append" else args[:1])
                d = ZERO
                for e in elts:
                    x = self.of(e)
                    if x is None:
                        return None
                    if not _poly(d) and not _poly(x) and d != x:
                        return None  # mixed arrays are legitimate (6-dof vectors)
                    d = self.join(d, x)
                return d
            if short == "where" and len(ads) == 3:
                return self.join(ads[1], ads[2])
            if short == "interp" and len(ads) == 3:
                return ads[2]
            if short in ("maximum", "minimum", "hypot") and len(ads) == 2:
                return self.add(it, node, ads[0], ads[1], args[0], args[1])
            if short in ("sign", "isnan", "isinf", "any", "all", "argmax", "argmin", "argsort", "nonzero"):
                return POLY
            return None
        return None


def _col(key):
    """literal index on the last listed axis of a subscript text, or None"""
    last = key.split(",")[-1].strip()
    return last if (last.lstrip("-").isdigit() and "," in key) else None


def _region_read(regs, key):
    """dimension of the part `key` of an array filled piecewise: the pieces that can
    overlap it (same literal last-axis index, or pieces spanning the last axis)."""
    if key in regs:
        return regs[key]
    c = _col(key)
    cands = []
    for k, u in regs.items():
        if k == "<rest>":
            continue
        kc = _col(k)
        if c is None or kc is None or kc == c:
            cands.append(u)
    cands.append(regs.get("<rest>", None) if "<rest>" in regs else None)
    if any(x is None for x in cands):
        return None
    conc = {x for x in cands if not _poly(x)}
    if len(conc) == 1:
        return next(iter(conc))
    if not conc:
        return ZERO
    return None


def _literal_number(n):
    try:
        v = ast.literal_eval(n)
    except Exception:
        return None
    if isinstance(v, (int, float)) and not isinstance(v, bool):
        return v
    return None


def _is_zero(n):
    v = _literal_number(n)
    return v is not None and v == 0


register_domain(Unit())
