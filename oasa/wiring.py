"""Promoted-name resolution and dataflow between the subsystems of a group
(per option valuation), on top of the group / component models.

Names are templates; the peeled placeholder is identified with the generic
one.  Interfaces of external OpenMDAO components are known only for
IndepVarComp (add_output calls); other external classes have an unknown
interface and produce no edges (never an alarm).
"""
import fnmatch

from .groups import group_model
from .load import ClassInfo
from .model import component_model


def norm(t):
    return t.replace("[0]", "[i]") if t else t


def _glob(pattern, name):
    pa = norm(pattern).replace("[", "\x01").replace("]", "\x02")
    nb = norm(name).replace("[", "\x01").replace("]", "\x02")
    return fnmatch.fnmatchcase(nb, pa)


class Iface:
    def __init__(self, inputs=(), outputs=(), known=True):
        self.inputs = set(inputs)
        self.outputs = set(outputs)
        self.known = known

    def __repr__(self):
        return "<Iface in=%d out=%d%s>" % (len(self.inputs), len(self.outputs), "" if self.known else " ?")


_IF_CACHE = {}


def _compat(sig_a, sig_b):
    for k, v in sig_a.items():
        if k in sig_b and sig_b[k] != v:
            return False
    return True


def class_iface(repo, cls, sigma=None):
    """External interface (bare promoted names) of a repository class: union over
    the valuations compatible with ``sigma`` (all valuations when None)."""
    if not isinstance(cls, ClassInfo):
        return Iface(known=False)
    ck = (cls.key, tuple(sorted((sigma or {}).items())))
    if ck in _IF_CACHE:
        return _IF_CACHE[ck]
    _IF_CACHE[ck] = Iface(known=False)  # recursion guard
    if cls.kind in ("explicit", "implicit"):
        m = component_model(repo, cls)
        ins, outs = set(), set()
        known = bool(m.setup_views)
        for sv in m.setup_views:
            if sigma is not None and not _compat(sv.sigma, sigma):
                continue
            ins |= {norm(x) for x in sv.inputs}
            outs |= {norm(x) for x in sv.outputs}
            if sv.unresolved:
                known = known and all(e.kind != "io" for e in sv.unresolved)
        res = Iface(ins, outs, known)
    elif cls.kind == "group":
        gm = group_model(repo, cls)
        ins, outs = set(), set()
        known = True
        for gr in gm.runs:
            if sigma is not None and not _compat(gr.sigma, sigma):
                continue
            lv = level_view(repo, gr, "self")
            known = known and lv.known
            for s, (si, so) in lv.names.items():
                ins |= {n for n in si if "." not in _strip(n)}
                outs |= {n for n in so if "." not in _strip(n)}
        # a promoted name produced inside the group is satisfied inside it: not an external input
        ins -= outs
        res = Iface(ins, outs, known)
    elif cls.kind == "indep":
        res = Iface(known=False)
    else:
        res = Iface(known=False)
    _IF_CACHE[ck] = res
    return res


def _strip(n):
    """remove <...> placeholders before looking for path separators"""
    out, depth = [], 0
    for ch in n:
        if ch == "<":
            depth += 1
        elif ch == ">":
            depth -= 1
        elif depth == 0:
            out.append(ch)
    return "".join(out)


def _promote_list(v):
    """[(pattern, newname or None)] from a promotes= value."""
    out = []
    if v is None:
        return out
    items = v.items if v.items is not None else None
    if items is None:
        return None  # unknown
    for x in items:
        if x.kind == "str" and x.tmpl is not None:
            out.append((x.tmpl, None))
        elif x.kind == "tuple" and x.items is not None and len(x.items) == 2 and all(y.kind == "str" and y.tmpl is not None for y in x.items):
            out.append((x.items[0].tmpl, x.items[1].tmpl))
        else:
            return None
    return out


def child_sigma(sigma, s):
    """The parent's valuation expressed in the child's own option names: only
    atoms over values handed to the child's constructor constrain the child."""
    out = {}
    reps = []
    for k, v in (s.ctor_kwargs or {}).items():
        if v is None or not v.cx:
            continue
        if v.kind in ("cfgdict", "cfglist"):
            reps.append((v.cx, k))
            if "[0]" in v.cx:
                reps.append((v.cx.replace("[0]", "[i]"), k))
        else:
            reps.append((v.cx, "options[%r]" % k))
    reps.sort(key=lambda r: -len(r[0]))
    for key, val in sigma.items():
        for a, b in reps:
            if a in key:
                out[key.replace(a, b)] = val
                break
    return out


class LevelView:
    """Names of every subsystem of one group object as seen at that level."""

    def __init__(self):
        self.order = []
        self.names = {}  # subsystem -> (inputs, outputs) at this level
        self.rename = {}  # (subsystem, child var) -> level name
        self.known = True
        self.unknown_subs = set()


def level_view(repo, gr, owner):
    lv = LevelView()
    # IndepVarComp-like outputs added on local instances
    ivc_out = {}
    for e in gr.run.events:
        if e.kind == "instance_call" and e.method == "add_output" and e.args and e.args[0].kind == "str":
            ivc_out.setdefault(e.base_src, set()).add(norm(e.args[0].tmpl))
    var_of_sub = {}
    for e in gr.run.events:
        if e.kind in ("subsys", "instance_call") and (e.kind == "subsys" or e.method == "add_subsystem"):
            pass
    for s in gr.subs_of(owner):
        if s.name is None:
            lv.known = False
            continue
        name = norm(s.name)
        if name in lv.names:
            continue
        lv.order.append(name)
        if isinstance(s.cls, ClassInfo):
            ci = class_iface(repo, s.cls, child_sigma(gr.sigma, s))
            # instantiate option placeholders of the names from the constructor arguments
            sub = {}
            for k, v in (s.ctor_kwargs or {}).items():
                if v is not None and v.kind == "str" and v.tmpl is not None:
                    sub["<options[%r]>" % k] = v.tmpl
            if sub and ci.known:
                def _inst(n):
                    for a, b in sub.items():
                        n = n.replace(a, b)
                    return n

                ci = Iface({_inst(n) for n in ci.inputs}, {_inst(n) for n in ci.outputs}, ci.known)
        else:
            # local instance: an inline om.Group() (its own owner in this run) or IndepVarComp
            src = None
            sub_arg = s.ev.d.get("sub") if s.ev.kind == "subsys" else (s.ev.args[1] if len(s.ev.args) > 1 else None)
            node = s.ev.node
            import ast as _ast

            argn = None
            if isinstance(node, _ast.Call) and len(node.args) > 1:
                argn = node.args[1]
            vname = _ast.unparse(argn) if argn is not None else None
            if vname in gr.owners() or any(x.owner == vname for x in gr.subsystems):
                inner = level_view(repo, gr, vname)
                ins, outs = set(), set()
                for ss, (si, so) in inner.names.items():
                    ins |= {n for n in si if "." not in _strip(n)}
                    outs |= {n for n in so if "." not in _strip(n)}
                ci = Iface(ins, outs, inner.known)
            elif vname in ivc_out:
                ci = Iface((), ivc_out[vname], True)
            else:
                ci = Iface(known=False)
        if not ci.known:
            lv.unknown_subs.add(name)
        pin = _promote_list(s.kwargs.get("promotes_inputs"))
        pout = _promote_list(s.kwargs.get("promotes_outputs"))
        pboth = _promote_list(s.kwargs.get("promotes"))
        if pin is None or pout is None or pboth is None:
            lv.known = False
            pin, pout, pboth = pin or [], pout or [], pboth or []
        ins, outs = set(), set()
        for var in ci.inputs:
            nm = None
            for pat, new in pin + pboth:
                if _glob(pat, var):
                    nm = norm(new) if new else var
            lvl = nm if nm is not None else "%s.%s" % (name, var)
            ins.add(lvl)
            lv.rename[(name, var)] = lvl
        for var in ci.outputs:
            nm = None
            for pat, new in pout + pboth:
                if _glob(pat, var):
                    nm = norm(new) if new else var
            lvl = nm if nm is not None else "%s.%s" % (name, var)
            outs.add(lvl)
            lv.rename[(name, var)] = lvl
        lv.names[name] = (ins, outs)
    return lv


def first_comp(path):
    depth = 0
    for i, ch in enumerate(path):
        if ch == "<":
            depth += 1
        elif ch == ">":
            depth -= 1
        elif ch == "." and depth == 0:
            return path[:i]
    return path


def edges(repo, gr, owner, lv=None):
    """[(producer, consumer, name, kind, event)] among the subsystems of owner."""
    lv = lv or level_view(repo, gr, owner)
    out = []
    prod = {}
    for s, (si, so) in lv.names.items():
        for n in so:
            prod.setdefault(n, []).append(s)
    # implicit connections by promoted name
    for s, (si, so) in lv.names.items():
        for n in si:
            if "." in _strip(n):
                continue
            for p in prod.get(n, []):
                if p != s:
                    out.append((p, s, n, "promoted", None))
    # explicit connections
    for o, a, b, e in gr.connects:
        if o != owner or a is None or b is None:
            continue
        a, b = norm(a), norm(b)
        pa = first_comp(a) if "." in _strip(a) else None
        pb = first_comp(b) if "." in _strip(b) else None
        if pa is None:
            cands = prod.get(a, [])
            pa = cands[0] if cands else None
        if pb is None:
            cands = [s for s, (si, so) in lv.names.items() if b in si]
            pb = cands[0] if cands else None
        if pa is not None and pb is not None and pa in lv.names and pb in lv.names:
            out.append((pa, pb, "%s -> %s" % (a, b), "connect", e))
    return out
