"""E6 evidence, findings, known-findings handling."""
import json
import os
import time

VERIF = os.path.dirname(os.path.dirname(os.path.abspath(__file__)))
EVIDENCE_DIR = os.environ.get("OAS_EVIDENCE_DIR") or os.path.join(VERIF, "evidence")
FINDINGS_DIR = os.path.join(EVIDENCE_DIR, "findings")
KNOWN = os.path.join(VERIF, "known_findings.json")


def load_known():
    if not os.path.exists(KNOWN):
        return []
    with open(KNOWN) as f:
        return json.load(f).get("findings", [])


class Instance:
    __slots__ = ("rule", "key", "status", "where", "detail", "algebraic")

    def __init__(self, rule, key, status, where, detail, algebraic=False):
        self.rule = rule
        self.key = key
        self.status = status
        self.where = where
        self.detail = detail
        self.algebraic = algebraic

    def as_dict(self):
        return {"rule": self.rule, "key": self.key, "status": self.status, "where": self.where, "detail": self.detail}


class Check:
    """Collects rule instances for one property and renders evidence."""

    def __init__(self, pid, tier, seed=0):
        self.pid = pid
        self.tier = tier
        self.seed = seed
        self.t0 = time.time()
        self.instances = []
        self.rules = {}  # rule id -> dict(text=..., min_decided=..., decides=...)
        self.analysed = set()
        self.notes = []
        self.errors = []
        self.valuations = 0

    # ---- registration
    def rule(self, rid, text, min_decided=1):
        self.rules[rid] = {"text": text, "min_decided": min_decided}

    def analysed_method(self, qual):
        self.analysed.add(qual)

    def ok(self, rule, key, where, detail="", algebraic=False):
        self.instances.append(Instance(rule, key, "ok", where, detail, algebraic))

    def violation(self, rule, key, where, detail, algebraic=False):
        self.instances.append(Instance(rule, key, "violation", where, detail, algebraic))

    def undecided(self, rule, key, where, detail="", algebraic=False):
        self.instances.append(Instance(rule, key, "undecided", where, detail, algebraic))

    def info(self, rule, key, where, detail=""):
        self.instances.append(Instance(rule, key, "info", where, detail))

    def error(self, msg):
        self.errors.append(msg)

    def note(self, msg):
        self.notes.append(msg)

    # ---- rendering
    def finish(self):
        # de-duplicate instances by (rule, key): violation > undecided > ok
        rank = {"violation": 3, "undecided": 2, "ok": 1, "info": 0}
        best = {}
        for i in self.instances:
            k = (i.rule, i.key)
            if k not in best or rank[i.status] > rank[best[k].status]:
                best[k] = i
        insts = list(best.values())
        known = [k for k in load_known() if k.get("property") == self.pid]
        known_open = {(k["rule"], k["key"]): k for k in known if k.get("status") == "known"}
        viol = [i for i in insts if i.status == "violation"]
        new_viol = [i for i in viol if (i.rule, i.key) not in known_open]
        kn_viol = [i for i in viol if (i.rule, i.key) in known_open]
        stale_known = [k for kk, k in known_open.items() if kk not in {(i.rule, i.key) for i in viol}]
        decided = [i for i in insts if i.status in ("ok", "violation")]
        und = [i for i in insts if i.status == "undecided"]
        # vacuity guard
        per_rule = {}
        for i in insts:
            per_rule.setdefault(i.rule, {"ok": 0, "violation": 0, "undecided": 0, "info": 0})[i.status] += 1
        vac = []
        for rid, r in self.rules.items():
            c = per_rule.get(rid, {"ok": 0, "violation": 0, "undecided": 0, "info": 0})
            # small counts are exact; for rules with many instances a behaviour-preserving edit
            # (a loop vectorised, two statements merged) may legitimately remove a few of them
            need = r["min_decided"] if r["min_decided"] <= 5 else -(-r["min_decided"] * 4 // 5)
            if c["ok"] + c["violation"] < need:
                vac.append("rule %s decided %d instances, fewer than the %d required (%d confirmed on the pinned tree; anchor vanished or idiom no longer recognised)" % (rid, c["ok"] + c["violation"], need, r["min_decided"]))
        lines = []
        for i in kn_viol:
            k = known_open[(i.rule, i.key)]
            lines.append("KNOWN-FINDING: property=%s rule=%s %s -- %s" % (self.pid, i.rule, i.key, k.get("what", i.detail)))
        replay = None
        if new_viol:
            os.makedirs(FINDINGS_DIR, exist_ok=True)
            replay = os.path.join(FINDINGS_DIR, "%s.json" % self.pid)
            with open(replay, "w") as f:
                json.dump({"property": self.pid, "tier": self.tier, "violations": [i.as_dict() for i in new_viol]}, f, indent=1)
            for i in new_viol:
                lines.append("%s  %s  %s  %s" % (i.where, i.rule, i.key, i.detail))
        alg = [i for i in insts if i.algebraic]
        alg_ok = [i for i in alg if i.status == "ok"]
        samples = []
        seen_rules = set()
        for i in decided + und:
            if i.rule not in seen_rules or len(samples) < 12:
                samples.append(i.as_dict())
                seen_rules.add(i.rule)
            if len(samples) >= 40:
                break
        explanation = (
            "Static analysis of /repo/openaerostruct sources (parsed with ast on this run, never executed). "
            "Each rule instance is a (rule, construct) pair found in the code; 'ok' means the rule was decided and holds, "
            "'violation' that both sides were resolved and conflict, 'undecided' that the engine could not resolve the "
            "instance (never an alarm). Rules: "
            + " | ".join("%s: %s" % (rid, r["text"]) for rid, r in sorted(self.rules.items()))
        )
        cov = {
            "explanation": explanation,
            "evaluations": len(insts),
            "distinct_nontrivial": len(decided),
            "rule": "instances are enumerated from the source by the rules listed in 'explanation'; distinct = distinct (rule, construct key); non-trivial = decided (ok or violation), i.e. both sides of the rule were resolved",
            "samples": samples,
            "obligations": len(alg),
            "discharged": len(alg_ok),
            "undecided": len(und),
            "undecided_instances": [i.as_dict() for i in und][:60],
            "information": [i.as_dict() for i in insts if i.status == "info"][:60],
            "per_rule": per_rule,
            "analysed_methods": sorted(self.analysed),
            "n_analysed_methods": len(self.analysed),
            "valuations_enumerated": self.valuations,
            "known_findings_matched": [i.as_dict() for i in kn_viol],
            "known_findings_not_reproduced": [{"rule": k["rule"], "key": k["key"]} for k in stale_known],
            "exhaustive": False,
            "notes": self.notes,
        }
        ev = {
            "property_id": self.pid,
            "tier": self.tier,
            "seed": self.seed,
            "level": "other",
            "coverage": cov,
            "assumptions": [
                "Python ast; sympy normal forms; numpy transfer tables in oasa/npsem.py",
                "OpenMDAO contracts: storage persists between calls, undeclared partials are zero, val= partials are never recomputed, compute precedes compute_partials at a point",
                "role / exemption tables in the rule modules (each entry carries a reason)",
            ],
            "wall_s": round(time.time() - self.t0, 3),
            "violations": len(new_viol),
        }
        os.makedirs(EVIDENCE_DIR, exist_ok=True)
        with open(os.path.join(EVIDENCE_DIR, "%s.json" % self.pid), "w") as f:
            json.dump(ev, f, indent=1, default=str)
        if vac and new_viol and not self.errors:
            # a resolved conflict is a specific finding; the instances the edit made
            # unresolvable elsewhere are reported but do not mask it
            for e in vac:
                print("NOTE: property=%s %s" % (self.pid, e))
        else:
            self.errors.extend(vac)
        if self.errors:
            for e in self.errors:
                print("ANALYSIS-ERROR property=%s %s" % (self.pid, e))
            for l in lines:
                print(l)
            return 2
        for l in lines:
            print(l)
        for k in stale_known:
            print("NOTE: known finding no longer reproduced: property=%s rule=%s %s" % (self.pid, k["rule"], k["key"]))
        summary = "property=%s tier=%s instances=%d decided=%d undecided=%d violations=%d known=%d wall=%.1fs" % (
            self.pid,
            self.tier,
            len(insts),
            len(decided),
            len(und),
            len(new_viol),
            len(kn_viol),
            time.time() - self.t0,
        )
        if new_viol:
            print("VIOLATION property=%s replay=%s" % (self.pid, replay))
            print("FAIL " + summary)
            return 1
        print("PASS " + summary)
        return 0
