"""E2 component / group model built from the interpreter's event logs."""
import fnmatch

from .absint import Interp, enumerate_runs
from .absval import join
from .load import AnalysisError

PHASES = [
    ("__init__", "initialize"),
    ("setup", "configure"),
    ("compute", "apply_nonlinear", "solve_nonlinear"),
    ("compute_partials", "linearize", "solve_linear", "compute_jacvec_product", "apply_linear"),
]
EVAL_METHODS = set(PHASES[2])
LIN_METHODS = set(PHASES[3])
SETUP_METHODS = set(PHASES[0]) | set(PHASES[1])


def tmpl_match(pattern, name):
    """Does a declare_partials name / glob template match an I/O template?
    The peeled-iteration placeholder unifies with the generic one."""
    if pattern is None or name is None:
        return None
    a = pattern.replace("[0]", "[i]")
    b = name.replace("[0]", "[i]")
    if a == b:
        return True
    if "*" in a or "?" in a:
        # escape placeholder brackets for fnmatch
        pa = a.replace("[", "\x01").replace("]", "\x02")
        nb = b.replace("[", "\x01").replace("]", "\x02")
        return fnmatch.fnmatchcase(nb, pa)
    return False


class SetupView:
    """I/O and declarations of one setup() valuation."""

    def __init__(self, run):
        self.run = run
        self.sigma = run.sigma
        self.inputs = {}
        self.outputs = {}
        self.decls = []
        self.unresolved = []
        for e in run.events:
            if e.kind == "io":
                if e.name is None:
                    self.unresolved.append(e)
                    continue
                (self.inputs if e.role == "input" else self.outputs).setdefault(e.name, e)
            elif e.kind == "decl":
                self.decls.append(e)
                if e.of is None or e.wrt is None or any(x is None for x in e.of + e.wrt):
                    self.unresolved.append(e)

    def expand(self, names, table):
        out = set()
        for p in names or ():
            if p is not None and p in table:
                out.add(p)  # an explicit name denotes exactly itself
                continue
            for nm in table:
                if tmpl_match(p, nm):
                    out.add(nm)
        return out

    def declared_pairs(self):
        """{(of, wrt): [decl events]} with globs expanded."""
        pairs = {}
        for d in self.decls:
            ofs = self.expand(d.of, self.outputs)
            wrts = self.expand(d.wrt, dict(self.inputs, **self.outputs))
            for o in ofs:
                for w in wrts:
                    pairs.setdefault((o, w), []).append(d)
        return pairs

    def find(self, name, table):
        for nm in table:
            if tmpl_match(name, nm):
                return table[nm]
        return None


class ComponentModel:
    def __init__(self, repo, cls, domains=()):
        self.repo = repo
        self.cls = cls
        self.runs = {}
        self.domains = domains
        self.setup_views = []
        self.warnings = []
        self._shape_cache = {}
        self.phase_attrs = {}
        self.build()

    def build(self):
        attrs, heap = {}, {}
        for pi, phase in enumerate(PHASES):
            finals = []
            for mname in phase:
                f = self.cls.methods.get(mname)
                if f is None:
                    continue
                a0, h0 = attrs, heap

                def mk(sigma, a0=a0, h0=h0):
                    return Interp(self.repo, self.cls, sigma, a0, h0, domains=[d() for d in self.domains], io=self)

                runs = enumerate_runs(self.repo, self.cls, f, mk)
                self.runs[mname] = runs
                for r in runs:
                    self.warnings.extend(r.warnings)
                    if r.final is not None:
                        finals.append(r.final)
                if mname == "setup":
                    # valuations under which setup() raises are rejected
                    # configurations, not models
                    self.setup_views = [SetupView(r) for r in runs if r.final is not None]
                    self.rejected_setups = [r for r in runs if r.final is None]
            if finals:
                attrs, heap = self._join_finals(finals)
            self.phase_attrs[pi] = attrs

    def _join_finals(self, finals):
        attrs = {}
        keys = set()
        for f in finals:
            keys |= set(f.attrs)
        for k in keys:
            v = None
            for f in finals:
                x = f.attrs.get(k)
                if x is None:
                    continue
                ob = f.heap.get(x.obj) if x.obj is not None else None
                if ob is not None and ob.stored and x.dom:
                    # element stores since the binding: the heap cell is authoritative, the
                    # facts attached to the bound value describe the array before those stores
                    x = x.with_(dom={dk: (dv if ob.dom.get(dk, dv) == dv else None) for dk, dv in x.dom.items()})
                v = x if v is None else join(v, x)
            attrs[k] = v
        heap = {}
        for f in finals:
            for k, o in f.heap.items():
                if isinstance(k, tuple) and k and k[0] in ("in", "out", "res", "partials", "d_in", "d_out", "d_res"):
                    continue
                if k in heap:
                    heap[k].join(o)
                else:
                    heap[k] = o.copy()
        return attrs, heap

    # ---- queries
    def shape_of(self, cell, sigma):
        role = cell[0]
        if role not in ("in", "out", "res", "d_in", "d_out", "d_res"):
            return None
        name = cell[1]
        key = (role, name, tuple(sorted(sigma.items())))
        if key in self._shape_cache:
            return self._shape_cache[key]
        shape = "unset"
        for sv in self.setup_views:
            if not sv.run.compatible(sigma):
                continue
            table = sv.inputs if role in ("in", "d_in") else sv.outputs
            e = sv.find(name, table)
            if e is None:
                continue
            s = e.shape
            if s is not None and "[i]" in name and "[0]" in (e.name or ""):
                pass
            if shape == "unset":
                shape = s
            elif shape != s:
                shape = None
        if shape == "unset":
            shape = None
        # rename mesh-size symbols when the cell is addressed through the other
        # iteration placeholder (surfaces[0] vs surfaces[i])
        self._shape_cache[key] = shape
        return shape

    def setup_for(self, sigma):
        return [sv for sv in self.setup_views if sv.run.compatible(sigma)]


_MODEL_CACHE = {}


def component_model(repo, cls, domains=()):
    key = (id(repo), cls.key, tuple(d.__name__ for d in domains))
    if key not in _MODEL_CACHE:
        _MODEL_CACHE[key] = ComponentModel(repo, cls, domains)
    return _MODEL_CACHE[key]
