"""Plug-in abstract domains for the E3 interpreter.

A domain keeps a side table ``node id -> domain value`` filled in post-order by
``on_expr`` (children are evaluated before their parent), stores its value in
``Val.dom[name]`` so that it travels with the value through locals, attributes,
tuples and helper returns, and joins into heap objects on stores.
"""
import ast

from .absval import register_domain
from .load import unparse

LINEAR_UFUNCS = {"real", "imag", "conj", "negative", "copy", "ascontiguousarray", "float64", "complex128", "asarray", "array", "atleast_1d", "atleast_2d", "squeeze", "ravel", "reshape", "transpose", "flip", "flipud", "fliplr", "swapaxes", "broadcast_to", "expand_dims"}
LINEAR_REDUCTIONS = {"sum", "mean", "trapz", "cumsum", "diff", "trace"}
LINEAR_BUILDERS = {"concatenate", "hstack", "vstack", "stack", "append", "tile", "repeat", "block", "column_stack", "dstack", "diag", "roll", "delete", "insert"}
BILINEAR = {"cross", "dot", "matmul", "inner", "outer", "tensordot", "kron", "einsum", "multiply", "vdot"}
SHAPE_ONLY = {"zeros", "ones", "empty", "full", "zeros_like", "ones_like", "empty_like", "eye", "identity", "arange", "linspace", "shape", "size", "len", "type", "isinstance", "range", "int"}


class Domain:
    name = "?"

    def __init__(self):
        self.nodeval = {}

    def bottom(self):
        return None

    def join(self, a, b):
        raise NotImplementedError

    # -- helpers
    def of(self, node):
        return self.nodeval.get(id(node), self.bottom())

    def val_dom(self, it, v, st):
        d = v.dom.get(self.name, self.bottom()) if v is not None else self.bottom()
        if v is not None and v.obj is not None and v.obj in st.heap:
            od = st.heap[v.obj].dom.get(self.name)
            if od is not None:
                d = self.join(d, od)
        return d

    def set(self, node, v, d):
        self.nodeval[id(node)] = d
        if d is not None and d != self.bottom():
            v.dom[self.name] = d
        elif self.name in v.dom and (d is None or d == self.bottom()):
            # the value was created from a base carrying a domain value (views); keep the computed one
            v.dom.pop(self.name, None)

    def on_store(self, it, obj, v, ev, st):
        d = v.dom.get(self.name, self.bottom())
        d = self.store_value(it, obj, v, ev, st, d)
        cur = obj.dom.get(self.name)
        if ev.d.get("whole") and ev.d.get("op") == "=":
            obj.dom[self.name] = d
        else:
            obj.dom[self.name] = self.join(cur if cur is not None else self.bottom(), d)

    def store_value(self, it, obj, v, ev, st, d):
        return d

    def on_aug(self, it, op, cur, rhs, res, st):
        """augmented assignment on an immutable local / attribute (x += e)."""
        res.dom.pop(self.name, None)

    def on_assign(self, it, name, v, stmt, st):
        """binding of a local name (v is a private copy that may be annotated)."""

    def on_expr(self, it, node, v, st):
        raise NotImplementedError


class Lin(Domain):
    """LIN: per input, 'C' (affine with configuration-only coefficient) or 'N'
    (anything else).  Absent = independent of the input."""

    name = "LIN"

    def bottom(self):
        return {}

    def join(self, a, b):
        if not a:
            return dict(b or {})
        if not b:
            return dict(a)
        out = dict(a)
        for k, c in b.items():
            out[k] = "N" if (out.get(k, c) != c or c == "N") else c
        return out

    def on_aug(self, it, op, cur, rhs, res, st):
        a, b = cur.dom.get(self.name, {}), rhs.dom.get(self.name, {})
        if op in ("+=", "-="):
            d = self.join(a, b)
        elif op in ("*=", "/=") and not b and self.pure(rhs):
            d = dict(a)
        elif op == "*=" and not a and self.pure(cur):
            d = dict(b)
        else:
            d = self.all_n(res, a, b)
        for k in res.dep:
            if k.startswith(("in:", "out:")) and k not in d:
                d[k] = "N"
        if d:
            res.dom[self.name] = d
        else:
            res.dom.pop(self.name, None)

    def all_n(self, v, *ds):
        out = {}
        for d in ds:
            for k in d or {}:
                out[k] = "N"
        for k in v.dep:
            if k.startswith(("in:", "out:")):
                out[k] = "N"
        return out

    def mul(self, v, a, b, va, vb):
        """product-like (bilinear) combination."""
        if not a and self.pure(va):
            return dict(b or {})
        if not b and self.pure(vb):
            return dict(a or {})
        return self.all_n(v, a, b)

    def pure(self, v):
        return v is None or not any(k.startswith(("in:", "out:", "random:")) for k in v.dep)

    def on_store(self, it, obj, v, ev, st):
        d = dict(v.dom.get(self.name, {}))
        op = ev.d.get("op")
        # control dependence and index dependence make the stored region non-affine
        for k in ev.d.get("dep", ()):
            if k.startswith(("in:", "out:")) and k not in v.dep:
                d[k] = "N"
        for sv in ev.d.get("sub_vals", ()):
            for k in sv.dep:
                if k.startswith(("in:", "out:")):
                    d[k] = "N"
        if st.ctrl:
            for k in st.ctrl:
                if k.startswith(("in:", "out:")):
                    d[k] = "N"
        if op in ("*=", "/=", "**=", "//=", "%="):
            cur = obj.dom.get(self.name, {})
            if d or not self.pure(v):
                d = self.all_n(v, d, cur)
                for k in obj.dep:
                    if k.startswith(("in:", "out:")):
                        d[k] = "N"
            else:
                d = dict(cur)
        cur = obj.dom.get(self.name)
        if ev.d.get("whole") and op == "=":
            obj.dom[self.name] = d
        else:
            obj.dom[self.name] = self.join(cur or {}, d)

    def on_expr(self, it, node, v, st):
        d = self.compute(it, node, v, st)
        # any dependence not explained structurally is non-affine
        for k in v.dep:
            if k.startswith(("in:", "out:")) and k not in d:
                d[k] = "N"
        self.nodeval[id(node)] = d
        if d:
            v.dom[self.name] = d
        else:
            v.dom.pop(self.name, None)

    def compute(self, it, node, v, st):
        if isinstance(node, ast.Constant):
            return {}
        if isinstance(node, ast.Name):
            return dict(self.val_dom(it, v, st))
        if isinstance(node, ast.Attribute):
            if isinstance(node.value, ast.Name) and node.value.id == "self":
                return dict(self.val_dom(it, v, st))
            if node.attr in ("shape", "size", "dtype", "ndim"):
                return {}
            return dict(self.of(node.value))
        if isinstance(node, ast.Subscript):
            if v.extra and isinstance(v.extra, tuple) and v.extra[0] == "cell":
                cell = v.extra[1]
                if cell[0] in ("in", "out"):
                    base = {"%s:%s" % (cell[0], cell[1]): "C"}
                    od = self.val_dom(it, v, st)
                    if cell[0] == "out" and od:
                        return dict(od)
                    return base
                return dict(self.val_dom(it, v, st))
            d = dict(self.of(node.value))
            # heap object behind a local array
            d = self.join(d, self.val_dom(it, v, st))
            idx = self.of(node.slice) if not isinstance(node.slice, (ast.Slice, ast.Tuple)) else {}
            if idx:
                d = self.all_n(v, d, idx)
            return d
        if isinstance(node, ast.UnaryOp):
            if isinstance(node.op, (ast.USub, ast.UAdd)):
                return dict(self.of(node.operand))
            return self.all_n(v, self.of(node.operand))
        if isinstance(node, ast.BinOp):
            a, b = self.of(node.left), self.of(node.right)
            va = vb = None
            op = type(node.op)
            if op in (ast.Add, ast.Sub):
                return self.join(a, b)
            la, lb = _depval(node.left, a), _depval(node.right, b)
            if op in (ast.Mult, ast.MatMult):
                if not a and not la:
                    return dict(b)
                if not b and not lb:
                    return dict(a)
                return self.all_n(v, a, b)
            if op is ast.Div:
                if not b and not lb:
                    return dict(a)
                return self.all_n(v, a, b)
            if op is ast.Pow:
                if not a and not b:
                    return {}
                if not b and isinstance(node.right, ast.Constant) and node.right.value == 1:
                    return dict(a)
                return self.all_n(v, a, b)
            return self.all_n(v, a, b)
        if isinstance(node, (ast.Compare, ast.BoolOp)):
            ds = [self.of(ch) for ch in ast.walk(node) if isinstance(ch, ast.expr) and ch is not node]
            return self.all_n(v, *ds)
        if isinstance(node, ast.IfExp):
            t = self.of(node.test)
            d = self.join(self.of(node.body), self.of(node.orelse))
            if t or any(k.startswith(("in:", "out:")) for k in v.dep if k not in d):
                return self.all_n(v, d, t)
            return d
        if isinstance(node, (ast.Tuple, ast.List)):
            d = {}
            for e in node.elts:
                d = self.join(d, self.of(e.value if isinstance(e, ast.Starred) else e))
            return d
        if isinstance(node, ast.Call):
            args = [a.value if isinstance(a, ast.Starred) else a for a in node.args]
            ads = [self.of(a) for a in args]
            kds = {k.arg: self.of(k.value) for k in node.keywords if k.arg}
            fn = unparse(node.func)
            short = fn.split(".")[-1]
            ex = v.extra if isinstance(v.extra, tuple) else ()
            mod = it.frames[-1].func.mod
            root = node.func
            while isinstance(root, ast.Attribute):
                root = root.value
            is_module_fn = isinstance(node.func, ast.Attribute) and isinstance(root, ast.Name) and root.id in mod.imports and root.id not in st.env
            is_method = isinstance(node.func, ast.Attribute) and not is_module_fn
            base = self.of(node.func.value) if is_method else {}
            # repository helper (inlined): the returned value already carries its LIN
            if not is_module_fn and v.dom.get(self.name) is not None and (isinstance(node.func, ast.Name) or (is_method and unparse(node.func.value) == "self")):
                return dict(v.dom[self.name])
            if short in SHAPE_ONLY and not is_method:
                if short == "full" and len(ads) > 1:
                    return dict(ads[1])
                return {}
            kw_live = [d for k, d in kds.items() if d and k not in ("dtype", "axis", "out")]
            if is_method:
                # array method: x.reshape(...), x.flatten(), x.sum(axis), x.dot(y), x.copy(), x.T ...
                if short in ("reshape", "flatten", "ravel", "copy", "squeeze", "transpose", "astype", "sum", "mean", "cumsum", "swapaxes", "conj", "view", "tolist", "item", "toarray", "tocsc", "tocsr"):
                    if any(ads) or kw_live:
                        return self.all_n(v, base, *ads, *kw_live)
                    return dict(base)
                if short in ("dot", "matvec", "rmatvec", "multiply"):
                    livep = [d for d in [base] + ads if d]
                    if len(livep) <= 1:
                        return dict(livep[0]) if livep else {}
                    return self.all_n(v, base, *ads)
                if short in ("solve",):
                    # factor.solve(b): linear in b when the factor is input independent
                    if not base:
                        return dict(ads[0]) if ads else {}
                    return self.all_n(v, base, *ads)
                if not base and not any(ads) and not kw_live:
                    return {}
                return self.all_n(v, base, *ads, *kw_live)
            live = [d for d in ads if d] + kw_live
            if not live:
                return {}
            first_only = LINEAR_UFUNCS | LINEAR_REDUCTIONS | {"tile", "repeat", "delete", "diag", "roll", "insert"}
            if short in LINEAR_UFUNCS or short in LINEAR_REDUCTIONS or short in LINEAR_BUILDERS:
                if short in first_only:
                    d = dict(ads[0]) if ads else {}
                    rest = ads[1:]
                    if short == "insert" and len(ads) > 2:
                        d = self.join(d, ads[2])
                        rest = ads[1:2]
                    if any(rest) or kw_live:
                        return self.all_n(v, d, *rest, *kw_live)
                    return d
                d = {}
                for x in ads:
                    d = self.join(d, x)
                return d
            if short in BILINEAR:
                ops = ads[1:] if short == "einsum" else ads
                livep = [d for d in ops if d]
                if len(livep) <= 1 and not kw_live:
                    return dict(livep[0]) if livep else {}
                return self.all_n(v, *ops)
            if short in ("lu_solve",):
                if len(ads) > 1 and not ads[0]:
                    return dict(ads[1])
            return self.all_n(v, *ads, *kds.values())
        if isinstance(node, (ast.ListComp, ast.GeneratorExp, ast.DictComp, ast.SetComp)):
            return self.all_n(v)
        if isinstance(node, ast.JoinedStr):
            return {}
        if isinstance(node, ast.Slice):
            return self.all_n(v)
        return self.all_n(v)


def _depval(node, d):
    return bool(d)


register_domain(Lin())
