"""E3 abstract interpreter.

A forward interpreter over method bodies of /repo sources (read as AST, never
executed).  It is run once per *valuation* of the configuration atoms a method
tests (NeedAtom / restart), joins at tests on input values, peels the first
iteration of surface loops when the body distinguishes it, and logs *events*
(stores, reads, declarations, calls, tests, raises) that the rules query.
"""
import ast
import itertools

import sympy as sp

from .absval import NONE, UNKNOWN, Obj, Val, boolv, join, num, strv, _DOMAINS
from .load import AnalysisError, unparse

MAX_RUNS = 512
MAX_DEPTH = 5

VEC_PARAMS = {
    "inputs": "inputs",
    "outputs": "outputs",
    "residuals": "residuals",
    "partials": "partials",
    "J": "partials",
    "jacobian": "partials",
    "d_inputs": "d_inputs",
    "d_outputs": "d_outputs",
    "d_residuals": "d_residuals",
    "discrete_inputs": "discrete_inputs",
    "discrete_outputs": "discrete_outputs",
}

CFG_LIST_KEYS = {"surfaces", "sections"}
CFG_DICT_KEYS = {"surface", "section"}


def canon_sub(sl):
    """canonical text of a subscript: lower bound 0 dropped, no spaces, no
    redundant trailing full slices."""
    elts = list(sl.elts) if isinstance(sl, ast.Tuple) else [sl]
    out = []
    for e in elts:
        if isinstance(e, ast.Slice):
            lo = "" if (e.lower is None or (isinstance(e.lower, ast.Constant) and e.lower.value == 0)) else unparse(e.lower).replace(" ", "")
            hi = "" if e.upper is None else unparse(e.upper).replace(" ", "")
            st = "" if e.step is None else ":" + unparse(e.step).replace(" ", "")
            out.append("%s:%s%s" % (lo, hi, st))
        else:
            out.append(unparse(e).replace(" ", ""))
    while len(out) > 1 and out[-1] == ":":
        out.pop()
    return ",".join(out)


class NeedAtom(Exception):
    def __init__(self, atom, cmp=None):
        self.atom = atom
        self.cmp = cmp


class Event:
    __slots__ = ("kind", "func", "lineno", "node", "d", "loops", "preds", "seq", "depth", "callsite")

    def __init__(self, kind, func, node, d, loops, preds, seq, depth=0, callsite=None):
        self.kind = kind
        self.func = func
        self.node = node
        self.lineno = getattr(node, "lineno", 0)
        self.d = d
        self.loops = loops
        self.preds = preds
        self.seq = seq
        self.depth = depth
        self.callsite = callsite

    def __getattr__(self, k):
        try:
            return self.d[k]
        except KeyError:
            raise AttributeError(k)

    def __repr__(self):
        return "<Ev %s %s:%d %s>" % (self.kind, self.func.qual, self.lineno, {k: v for k, v in self.d.items() if k != "val"})


class State:
    __slots__ = ("env", "heap", "attrs", "ctrl", "preds")

    def __init__(self, env=None, heap=None, attrs=None, ctrl=frozenset(), preds=()):
        self.env = env if env is not None else {}
        self.heap = heap if heap is not None else {}
        self.attrs = attrs if attrs is not None else {}
        self.ctrl = ctrl
        self.preds = preds

    def fork(self):
        return State(dict(self.env), {k: o.copy() for k, o in self.heap.items()}, dict(self.attrs), self.ctrl, self.preds)

    def merge(self, other):
        """Join other into self (in place), returns self."""
        env = {}
        for k in set(self.env) | set(other.env):
            a = self.env.get(k)
            b = other.env.get(k)
            if a is None or b is None:
                v = a if a is not None else b
                env[k] = v.with_(extra=("maybe_unset", v.extra)) if v.extra is None else v
            else:
                env[k] = join(a, b)
        self.env = env
        attrs = {}
        for k in set(self.attrs) | set(other.attrs):
            a = self.attrs.get(k)
            b = other.attrs.get(k)
            attrs[k] = join(a, b) if (a is not None and b is not None) else (a if a is not None else b)
        self.attrs = attrs
        for k, o in other.heap.items():
            if k in self.heap:
                self.heap[k].join(o)
            else:
                self.heap[k] = o.copy()
        return self


def sym_nonneg(e):
    """True if expression e (in mesh-size symbols) is provably >= 0 for all
    nx>=2, ny>=2, n>=1 ...: coefficient-wise after the shift substitution."""
    try:
        e = sp.expand(e)
        subs = {}
        for s in e.free_symbols:
            nm = s.name
            lo = 2 if (nm.startswith("nx") or nm.startswith("ny")) else (1 if s.is_positive else 0)
            subs[s] = sp.Symbol("_" + nm, nonnegative=True) + lo
        e2 = sp.expand(e.subs(subs))
        if e2.is_number:
            return bool(e2 >= 0)
        p = sp.Poly(e2, *sorted(e2.free_symbols, key=lambda s: s.name))
        return all(c >= 0 for c in p.coeffs())
    except Exception:
        return False


def sym_eq(a, b):
    try:
        return sp.expand(a - b) == 0
    except Exception:
        return False


SUM = sp.Function("SUM")


def list_sum(cx, w):
    """Sum over the elements of configuration list cx of the per-element
    polynomial w (in the generic-element symbols), with numeric content pulled
    out so that SUM is linear in constants."""
    w = sp.expand(w)
    if w == 0:
        return sp.Integer(0)
    if not w.free_symbols:
        return w * sp.Symbol("n_" + "".join(ch if ch.isalnum() else "_" for ch in cx), integer=True, positive=True)
    c, prim = sp.factor_terms(w).as_coeff_Mul()
    try:
        c2, prim2 = sp.Poly(w, *sorted(w.free_symbols, key=lambda x: x.name)).primitive()
        c, prim = c2, prim2.as_expr()
    except Exception:
        pass
    return c * SUM(sp.Symbol("L_" + "".join(ch if ch.isalnum() else "_" for ch in cx)), sp.expand(prim))


class Frame:
    def __init__(self, func, callsite=None):
        self.func = func
        self.rets = []
        self.callsite = callsite
        self.yields = []  # values of `yield` statements (generator helpers), in program order
        self.yield_ok = True
        self.loop_depth = 0


class LoopCtx:
    __slots__ = ("node", "kind", "cx", "tag", "var")

    def __init__(self, node, kind, cx, tag, var):
        self.node = node
        self.kind = kind  # 'cfglist' | 'range' | 'other'
        self.cx = cx  # iterated configuration list cx or range bound text
        self.tag = tag  # 'first' | 'generic'
        self.var = var

    @property
    def generic(self):
        return self.tag.startswith("generic")

    def __repr__(self):
        return "<Loop %s %s %s@%d>" % (self.kind, self.cx, self.tag, self.node.lineno)


class Interp:
    def __init__(self, repo, cls=None, sigma=None, attrs=None, heap=None, domains=(), io=None, hooks=None, join_atoms=False):
        self.repo = repo
        self.cls = cls
        self.last_inlined = {}
        self.sigma = dict(sigma or {})
        self.consulted = []
        self.events = []
        self.frames = []
        self.loops = []
        self.seq = 0
        self.domains = list(domains)
        self.init_attrs = attrs or {}
        self.init_heap = heap or {}
        self.io = io  # ComponentModel (for shapes of inputs/outputs), optional
        self.hooks = hooks or {}
        self.cmp_info = {}
        self.warnings = []
        self.assign_ctx = {}
        self.join_atoms = join_atoms
        self._last_atom = None

    # ------------------------------------------------------------------ events
    def emit(self, kind, node, st, **d):
        self.seq += 1
        fr = self.frames[-1]
        ev = Event(kind, fr.func, node, d, tuple(self.loops), st.preds if st else (), self.seq, len(self.frames) - 1, self.frames[0].callsite if False else (self.frames[1].callsite if len(self.frames) > 1 else None))
        self.events.append(ev)
        return ev

    # ------------------------------------------------------------------ atoms
    def ask(self, key, cmp=None):
        if key in self.sigma:
            v = self.sigma[key]
            if (key, v) not in self.consulted:
                self.consulted.append((key, v))
            return v
        if cmp is not None:
            imp = self._implied(cmp)
            if imp is not None:
                return imp
        if " == '" in key and key.endswith("'"):
            base = key.split(" == '")[0]
            for k2, v2 in self.sigma.items():
                if v2 and k2 != key and k2.startswith(base + " == '"):
                    return False
        raise NeedAtom(key, cmp)

    def _implied(self, cmp):
        base, op, lit = cmp
        cons = [(c, v) for k, v in self.sigma.items() for c in [self.cmp_info.get(k)] if c and c[0] == base]
        if not cons:
            return None
        lits = sorted({float(c[2]) for c, _ in cons} | {float(lit)})
        pts = set(lits)
        for a, b in zip(lits, lits[1:]):
            pts.add((a + b) / 2)
        pts.add(lits[0] - 1)
        pts.add(lits[-1] + 1)

        def holds(x, op, l):
            l = float(l)
            return {"==": x == l, "!=": x != l, "<": x < l, "<=": x <= l, ">": x > l, ">=": x >= l}[op]

        feas = [x for x in pts if all(holds(x, c[1], c[2]) == v for c, v in cons)]
        res = {holds(x, op, lit) for x in feas}
        if len(res) == 1:
            return res.pop()
        return None

    # ------------------------------------------------------------------ entry
    def run_entry(self, func, bind=None):
        st = State(attrs=dict(self.init_attrs), heap={k: o.copy() for k, o in self.init_heap.items()})
        args = {}
        a = func.node.args
        names = [x.arg for x in a.posonlyargs + a.args]
        for nm in names:
            if nm == "self":
                args[nm] = Val("self", cfg=True)
            elif nm in VEC_PARAMS:
                args[nm] = Val("vec", extra=VEC_PARAMS[nm])
            elif nm == "mode":
                args[nm] = Val("str", cfg=True, cx="mode")
            else:
                args[nm] = UNKNOWN
        # defaults
        defaults = a.defaults
        for nm, dflt in zip(names[len(names) - len(defaults):], defaults):
            if args.get(nm) is UNKNOWN:
                pass
        if bind:
            args.update(bind)
        res, st = self.call_function(func, args, st, None)
        self.final_state = st
        return res

    def call_function(self, func, args, st, callsite):
        if len(self.frames) >= MAX_DEPTH:
            return UNKNOWN, st
        fr = Frame(func, callsite)
        self.frames.append(fr)
        saved_env = st.env
        saved_ctrl, saved_preds = st.ctrl, st.preds
        st.env = dict(args)
        a = func.node.args
        # defaults for unbound params
        names = [x.arg for x in a.posonlyargs + a.args]
        for nm, dflt in zip(names[len(names) - len(a.defaults):], a.defaults):
            if nm not in st.env:
                st.env[nm] = self.eval(dflt, st)
        for x, dflt in zip(a.kwonlyargs, a.kw_defaults):
            if x.arg not in st.env and dflt is not None:
                st.env[x.arg] = self.eval(dflt, st)
        for nm in names:
            st.env.setdefault(nm, UNKNOWN)
        if a.vararg:
            st.env.setdefault(a.vararg.arg, Val("tuple", items=()))
        if a.kwarg:
            st.env.setdefault(a.kwarg.arg, Val("dict", items={}))
        saved_loops = self.loops
        if callsite is None:
            self.loops = []
        fr.loop_depth = len(self.loops)
        end = self.exec_block(func.node.body, st)
        self.loops = saved_loops
        self.frames.pop()
        rets = list(fr.rets)
        if end is not None:
            rets.append((NONE, end))
        if not rets:
            # every path raised
            st2 = st
            st2.env = saved_env
            return Val("unknown", extra="noreturn"), None
        val = None
        out = None
        for v, s in rets:
            val = v if val is None else join(val, v)
            out = s if out is None else out.merge(s)
        out.env = saved_env
        if any(isinstance(x, (ast.Yield, ast.YieldFrom)) for x in ast.walk(func.node)):
            # a generator helper: the call denotes the sequence of yielded values.  Exact only when
            # every yield was reached outside loops and outside input-valued branches (configuration
            # tests are enumerated as valuations, so they select one straight-line path)
            if fr.yield_ok and not any(isinstance(x, ast.YieldFrom) for x in ast.walk(func.node)):
                val = Val("list", items=list(fr.yields), cfg=all(y.cfg for y in fr.yields), dep=frozenset().union(*[y.dep for y in fr.yields]) if fr.yields else frozenset())
            else:
                val = UNKNOWN
        # control dependence inside the callee does not extend to the caller's continuation
        # (the returned value itself carries the dependence)
        if callsite is not None:
            extra = frozenset()
            for v, s in rets:
                extra |= (s.ctrl - saved_ctrl)
            if extra and val is not None:
                val = val.with_(dep=val.dep | extra, cfg=False, cx=None)
            out.ctrl, out.preds = saved_ctrl, saved_preds
        return val, out

    # ------------------------------------------------------------------ statements
    def exec_block(self, stmts, st):
        for s in stmts:
            if st is None:
                return None
            st = self.exec_stmt(s, st)
        return st

    def exec_stmt(self, s, st):
        self.cur_stmt = s
        m = getattr(self, "st_" + type(s).__name__, None)
        if m is None:
            self.warnings.append("unsupported statement %s at %s:%d" % (type(s).__name__, self.frames[-1].func.mod.rel, s.lineno))
            return st
        return m(s, st)

    def st_Expr(self, s, st):
        self.eval(s.value, st)
        return self._post_call_state(st)

    def _post_call_state(self, st):
        # a helper call that always raises terminates the path
        if getattr(self, "_dead", False):
            self._dead = False
            return None
        return st

    def st_Pass(self, s, st):
        return st

    def ex_Yield(self, n, st):
        v = self.eval(n.value, st) if n.value is not None else NONE
        fr = self.frames[-1]
        if st.ctrl or len(self.loops) > fr.loop_depth:
            fr.yield_ok = False
        else:
            fr.yields.append(v)
        return NONE

    def st_Import(self, s, st):
        for a in s.names:
            nm = a.asname or a.name.split(".")[0]
            m2 = self.repo.by_dotted.get(a.name)
            st.env[nm] = Val("module", extra=m2, cfg=True) if m2 is not None else Val("ext", extra=a.name if a.asname else a.name.split(".")[0], cfg=True)
        return st

    def st_ImportFrom(self, s, st):
        m2 = self.repo.by_dotted.get(s.module or "")
        for a in s.names:
            nm = a.asname or a.name
            if m2 is not None:
                if a.name in m2.classes:
                    st.env[nm] = Val("class", extra=m2.classes[a.name], cfg=True)
                elif a.name in m2.functions:
                    st.env[nm] = Val("func", extra=m2.functions[a.name], cfg=True)
                elif a.name in m2.global_assigns:
                    st.env[nm] = self.module_const(m2, a.name, st)
                else:
                    st.env[nm] = Val("unknown", cfg=True)
            else:
                st.env[nm] = Val("ext", extra="%s:%s" % (s.module, a.name), cfg=True)
        return st

    def st_Global(self, s, st):
        return st

    st_Nonlocal = st_Global

    def st_Assert(self, s, st):
        self.eval(s.test, st)
        return st

    def st_Delete(self, s, st):
        for t in s.targets:
            if isinstance(t, ast.Name):
                st.env.pop(t.id, None)
        return st

    def st_FunctionDef(self, s, st):
        from .load import FuncInfo

        st.env[s.name] = Val("func", extra=FuncInfo(self.frames[-1].func.mod, s, None), cfg=True)
        return st

    def st_Return(self, s, st):
        v = self.eval(s.value, st) if s.value is not None else NONE
        self.emit("return", s, st, val=v)
        self.frames[-1].rets.append((v, st))
        return None

    def st_Raise(self, s, st):
        exc = None
        msg = None
        if s.exc is not None:
            if isinstance(s.exc, ast.Call):
                exc = unparse(s.exc.func)
                if s.exc.args:
                    msg = unparse(s.exc.args[0])[:120]
            else:
                exc = unparse(s.exc)
        self.emit("raise", s, st, exc=exc, msg=msg)
        return None

    def st_Assign(self, s, st):
        v = self.eval(s.value, st)
        for t in s.targets:
            self.assign(t, v, st, s, "=")
        return self._post_call_state(st)

    def st_AnnAssign(self, s, st):
        if s.value is not None:
            v = self.eval(s.value, st)
            self.assign(s.target, v, st, s, "=")
        return st

    def st_AugAssign(self, s, st):
        op = {ast.Add: "+=", ast.Sub: "-=", ast.Mult: "*=", ast.Div: "/=", ast.FloorDiv: "//=", ast.Pow: "**=", ast.Mod: "%=", ast.MatMult: "@=", ast.BitOr: "|=", ast.BitAnd: "&="}.get(type(s.op), "?=")
        rhs = self.eval(s.value, st)
        t = s.target
        if isinstance(t, ast.Name):
            cur = st.env.get(t.id, UNKNOWN)
            if cur.obj is None or cur.kind in ("str", "list", "tuple", "unknown", "bool"):
                # rebinding semantics for immutables
                res = self.binop(ast.BinOp(left=t, op=s.op, right=s.value), type(s.op), cur, rhs, st, s)
                res = self._ctrl(res, st)
                if self.domains:
                    res = res.with_()
                    for d in self.domains:
                        d.on_aug(self, op, cur, rhs, res, st)
                self.emit("assign", s, st, name=t.id, val=res, op=op, rhs=rhs, prev=cur)
                st.env[t.id] = res
                return st
            # in-place on an array object
            self.store(t, cur, (), rhs, st, s, op)
            return st
        if isinstance(t, ast.Attribute) and isinstance(t.value, ast.Name) and t.value.id == "self":
            cur = st.attrs.get(t.attr, UNKNOWN)
            if cur.obj is None:
                res = self.binop(None, type(s.op), cur, rhs, st, s)
                res = self._ctrl(res, st)
                if self.domains:
                    res = res.with_()
                    for d in self.domains:
                        d.on_aug(self, op, cur, rhs, res, st)
                self.emit("attr_store", s, st, attr=t.attr, val=res, op=op, prev=cur)
                st.attrs[t.attr] = res
                return st
            self.store(t, cur, (), rhs, st, s, op)
            return st
        # subscripted target
        base, subs = self._split_target(t)
        bv = self.eval(base, st)
        self.store(t, bv, subs, rhs, st, s, op)
        return st

    def _split_target(self, t):
        subs = []
        while isinstance(t, ast.Subscript):
            subs.append(t.slice)
            t = t.value
        subs.reverse()
        return t, tuple(subs)

    def _ctrl(self, v, st):
        if st.ctrl and not (st.ctrl <= v.dep):
            return v.with_(dep=v.dep | st.ctrl, cfg=False, cx=None)
        return v

    def assign(self, t, v, st, stmt, op):
        if isinstance(t, ast.Name):
            v2 = self._ctrl(v, st)
            if self.domains:
                if v2 is v:
                    v2 = v.with_()
                for d in self.domains:
                    d.on_assign(self, t.id, v2, stmt, st)
            self.emit("assign", stmt, st, name=t.id, val=v2, op=op, rhs=v, prev=st.env.get(t.id))
            st.env[t.id] = v2
            self.assign_ctx[(len(self.frames), t.id)] = (tuple(self.loops), getattr(stmt, "lineno", 0), self._elem_prov(v2))
        elif isinstance(t, (ast.Tuple, ast.List)):
            items = None
            if v.items is not None and isinstance(v.items, (list, tuple)) and len(v.items) == len(t.elts):
                items = list(v.items)
            elif v.kind in ("arr", "num") and v.shape and v.shape[0] is not None and v.shape[0].is_number and int(v.shape[0]) == len(t.elts):
                items = [Val("arr" if len(v.shape) > 1 else "num", dep=v.dep, cfg=v.cfg, shape=v.shape[1:] if len(v.shape) > 1 else None, obj=v.obj, view="part" if v.obj is not None else None, dom=dict(v.dom)) for _ in t.elts]
            for i, e in enumerate(t.elts):
                if isinstance(e, ast.Starred):
                    self.assign(e.value, Val("unknown", dep=v.dep, cfg=v.cfg), st, stmt, op)
                    continue
                if items is not None:
                    ev = items[i]
                else:
                    ev = Val("unknown", dep=v.dep, cfg=v.cfg, dom=dict(v.dom))
                    if v.extra and isinstance(v.extra, tuple) and v.extra[0] == "shape_of" and v.extra[1] is not None and i < len(v.extra[1]) and v.extra[1][i] is not None:
                        ev = num(v.extra[1][i])
                self.assign(e, ev, st, stmt, op)
        elif isinstance(t, ast.Attribute):
            if isinstance(t.value, ast.Name) and t.value.id == "self":
                v2 = self._ctrl(v, st)
                self.emit("attr_store", stmt, st, attr=t.attr, val=v2, op=op, prev=st.attrs.get(t.attr))
                st.attrs[t.attr] = v2
            else:
                bv = self.eval(t.value, st)
                self.emit("objattr_store", stmt, st, base=bv, base_src=unparse(t.value), attr=t.attr, val=v, op=op)
        elif isinstance(t, ast.Subscript):
            base, subs = self._split_target(t)
            bv = self.eval(base, st)
            self.store(t, bv, subs, v, st, stmt, op)
        elif isinstance(t, ast.Starred):
            self.assign(t.value, v, st, stmt, op)

    # ------------------------------------------------------------------ stores
    def store(self, target, bv, subs, v, st, stmt, op):
        """Store (op '=' or augmented) of value v into base value bv at subscripts."""
        # A[..., d, d] op= scalar with d = np.arange(k), k a small literal: the k diagonal entries,
        # desugared into k element stores with literal indices (same as `for i in range(k): A[..., i, i] op= c`)
        if subs and isinstance(subs[-1], ast.Tuple) and v.kind == "num":
            elts = subs[-1].elts
            nms = [e.id for e in elts if isinstance(e, ast.Name)]
            dup = [x for x in set(nms) if nms.count(x) == 2]
            dv = st.env.get(dup[0]) if len(dup) == 1 else None
            if dv is not None and dv.kind == "arr" and isinstance(dv.extra, tuple) and len(dv.extra) == 3 and dv.extra[0] == "arange":
                lo_, hi_ = dv.extra[1], dv.extra[2]
                ob_ = st.heap.get(dv.obj) if dv.obj is not None else None
                try:
                    small = lo_ is not None and hi_ is not None and sp.sympify(lo_) == 0 and sp.sympify(hi_).is_Integer and 0 < int(hi_) <= 4 and not (ob_ is not None and ob_.stored)
                except Exception:
                    small = False
                if small:
                    for i_ in range(int(hi_)):
                        ne = [ast.copy_location(ast.Constant(i_), e) if (isinstance(e, ast.Name) and e.id == dup[0]) else e for e in elts]
                        nt = ast.copy_location(ast.Tuple(elts=ne, ctx=ast.Load()), subs[-1])
                        self.store(target, bv, tuple(subs[:-1]) + (nt,), v, st, stmt, op)
                    return
        dep = v.dep | st.ctrl
        sub_vals = []
        key = None
        cell = None
        # vector store: outputs[key] = v ; partials[of, wrt][...] = v
        if bv.kind == "vec":
            if not subs:
                return
            k = self.eval(subs[0], st)
            cell = self.cell_of(bv.extra, k)
            rest = subs[1:]
            oid = cell
            view = "whole"
            shape = self.cell_shape(cell)
        elif bv.kind == "dict" and subs:
            k = self.eval(subs[0], st)
            kk = self.to_tmpl(k) or k.cx or "?"
            if len(subs) == 1 and op == "=":
                items = dict(bv.items or {})
                items[kk] = v
                newd = Val("dict", items=items, cfg=bv.cfg and v.cfg, dep=bv.dep | dep, obj=bv.obj)
                base, _ = self._split_target(target)
                self._rebind(base, newd, st)
                self.emit("dict_store", stmt, st, key=kk, val=v, base=bv, target=unparse(target))
                return
            inner = (bv.items or {}).get(kk, UNKNOWN)
            return self.store(target, inner, subs[1:], v, st, stmt, op)
        elif bv.kind in ("cfgdict", "options") and subs:
            k = self.eval(subs[0], st)
            key = k.tmpl if (k.kind == "str" and k.tmpl is not None) else None
            if len(subs) == 1:
                self.emit("cfg_mutation", stmt, st, src=bv.cx, method="__setitem__", key=key, args=[v], op=op)
                return
            inner = self.cfg_value(bv, key, stmt, st) if bv.kind == "cfgdict" else self.option_value(key or "?", st, stmt)
            return self.store(target, inner, subs[1:], v, st, stmt, op)
        elif bv.kind in ("list",) and subs and bv.obj is None:
            self.emit("list_store", stmt, st, val=v, base=bv, target=unparse(target))
            return
        else:
            oid = bv.obj
            rest = subs
            view = bv.view or "whole"
            shape = bv.shape
            if oid is None and bv.kind in ("arr", "num") and subs:
                # element store into an array value that has no heap object yet (result of
                # a numpy call bound to a local): give the local its own object
                base_t, _ = self._split_target(target)
                if isinstance(base_t, ast.Name) and base_t.id in st.env and st.env[base_t.id].obj is None and st.env[base_t.id].kind in ("arr", "num"):
                    fr = self.frames[-1]
                    oid = ("local", fr.func.qual, base_t.id, getattr(base_t, "lineno", 0) and 0)
                    o = Obj(oid, dep=bv.dep, shape=bv.shape, cfg=bv.cfg)
                    o.dom = dict(bv.dom)
                    st.heap[oid] = o
                    bv = bv.with_(obj=oid, view="whole", kind="arr")
                    st.env[base_t.id] = bv
                elif isinstance(base_t, ast.Attribute) and isinstance(base_t.value, ast.Name) and base_t.value.id == "self" and base_t.attr in st.attrs and st.attrs[base_t.attr].obj is None and st.attrs[base_t.attr].kind in ("arr", "num"):
                    # the same for an array expression bound to self.<attr> (self.sigma = y * np.ones(..); self.sigma[:, k] *= f)
                    oid = ("self", base_t.attr)
                    o = Obj(oid, dep=bv.dep, shape=bv.shape, cfg=bv.cfg)
                    o.dom = dict(bv.dom)
                    st.heap[oid] = o
                    bv = bv.with_(obj=oid, view="whole", kind="arr")
                    st.attrs[base_t.attr] = bv
        for sl in rest:
            sub_vals.append(self.eval_slice(sl, st))
        if len(rest) == 1:
            self.note_offslice(stmt, st, Val("arr", shape=shape, obj=oid, view=view), rest[0], sub_vals[0], unparse(target)[:100])
        idx_dep = frozenset()
        for sv in sub_vals:
            idx_dep |= sv.dep
        region = self.region_of(rest, sub_vals, shape if view == "whole" else None, view)
        whole = region == "whole" and view in ("whole",)
        ev = self.emit(
            "store",
            stmt,
            st,
            obj=oid,
            cell=cell if cell else (oid if isinstance(oid, tuple) and oid and oid[0] in ("in", "out", "res", "partials", "self", "cfg", "d_in", "d_out", "d_res") else None),
            op=op,
            val=v,
            dep=frozenset(dep | idx_dep),
            region=region,
            whole=whole,
            view=view,
            target=unparse(target),
            subs=tuple(unparse(x) for x in rest),
            csubs=tuple(canon_sub(x) for x in rest),
            sub_vals=tuple(sub_vals),
            base=bv,
            mayc=bv.mayc,
        )
        if oid is not None:
            o = st.heap.get(oid)
            if o is None:
                o = Obj(oid, shape=shape)
                st.heap[oid] = o
            if whole and op == "=":
                o.dep = set(dep | idx_dep)
                o.cfg = v.cfg and not st.ctrl
            else:
                o.dep |= dep | idx_dep
                o.cfg = o.cfg and v.cfg and not st.ctrl
            o.stored = True
            for d in self.domains:
                d.on_store(self, o, v, ev, st)
            if bv.kind == "vec" and op == "=" and not rest and v.shape is not None and o.shape is None:
                o.shape = v.shape
        elif isinstance(target, ast.Name) or (isinstance(target, ast.Subscript) and bv.kind in ("arr", "num", "unknown")):
            # store into an untracked local: widen the binding
            base, _ = self._split_target(target) if isinstance(target, ast.Subscript) else (target, ())
            if isinstance(base, ast.Name) and base.id in st.env:
                cur = st.env[base.id]
                st.env[base.id] = cur.with_(dep=cur.dep | dep | idx_dep, cfg=cur.cfg and v.cfg and not st.ctrl, cx=None, sym=None)

    def _rebind(self, base, v, st):
        if isinstance(base, ast.Name):
            st.env[base.id] = v
        elif isinstance(base, ast.Attribute) and isinstance(base.value, ast.Name) and base.value.id == "self":
            st.attrs[base.attr] = v

    def cell_of(self, role, k):
        """Storage cell id for vec[role][k]."""
        if k.kind == "tuple" and k.items is not None and len(k.items) == 2:
            a, b = k.items
            return ("partials", self._tm(a), self._tm(b))
        if role == "partials":
            # partials[key] with a key that is not a resolved pair: both names unknown
            return ("partials", "?", "?")
        t = self._tm(k)
        return ({"inputs": "in", "outputs": "out", "residuals": "res", "partials": "partials", "d_inputs": "d_in", "d_outputs": "d_out", "d_residuals": "d_res", "discrete_inputs": "din", "discrete_outputs": "dout"}[role], t)

    def _tm(self, v):
        t = self.to_tmpl(v)
        return t if t is not None else "?"

    def cell_shape(self, cell):
        if self.io is None or cell is None:
            return None
        return self.io.shape_of(cell, self.sigma)

    def region_of(self, subs, sub_vals, shape, view):
        """'whole' | tuple of per-axis descriptors | None (unknown)."""
        if not subs:
            return "whole"
        axes = []
        flat = []
        for sl, sv in zip(subs, sub_vals):
            if sv.kind == "tuple" and sv.items is not None and isinstance(sl, ast.Tuple):
                flat.extend(zip(sl.elts, sv.items))
            else:
                flat.append((sl, sv))
        if len(subs) > 1:
            # chained subscripts K[a][b]: only handle a leading full slice
            first = sub_vals[0]
            if not (first.kind == "slice" and first.extra == (None, None, None)):
                return None
            flat = flat[1:]
            if not flat:
                return "whole"
        all_full = True
        for i, (sl, sv) in enumerate(flat):
            if isinstance(sl, ast.Constant) and sl.value is Ellipsis:
                axes.append(("all",))
                continue
            if sv.kind == "slice":
                lo, hi, step = sv.extra
                if lo is None and hi is None and step is None:
                    axes.append(("all",))
                    continue
                all_full = False
                if step is not None:
                    axes.append(("unknown",))
                    continue
                axes.append(("range", lo, hi))
            elif sv.kind == "num" and sv.sym is not None:
                all_full = False
                axes.append(("index", sv.sym))
            elif sv.kind == "none":
                axes.append(("newaxis",))
            else:
                all_full = False
                axes.append(("unknown",))
        if all_full:
            return "whole"
        return tuple(axes)

    # ------------------------------------------------------------------ control flow
    def st_If(self, s, st):
        tv = self.eval(s.test, st)
        t = self.truth(tv, s.test, st)
        if t is True:
            return self.exec_block(s.body, st)
        if t is False:
            return self.exec_block(s.orelse, st)
        # input-valued (or unknown) test: explore both arms, join
        ptxt = self.pred_text(s.test, st)
        if self.join_atoms and self._last_atom is not None and tv.cfg:
            ptxt = "cfg:" + self._last_atom
            self._last_atom = None
        self.emit("test", s, st, pred=ptxt, dep=tv.dep, val=tv)
        outer_ctrl, outer_preds = st.ctrl, st.preds
        st_t = st.fork()
        st_f = st
        st_t.ctrl = outer_ctrl | tv.dep
        st_f.ctrl = outer_ctrl | tv.dep
        st_t.preds = outer_preds + ((ptxt, True, s.lineno),)
        st_f.preds = outer_preds + ((ptxt, False, s.lineno),)
        r_t = self.exec_block(s.body, st_t)
        r_f = self.exec_block(s.orelse, st_f)
        if r_t is None and r_f is None:
            return None
        if r_t is None or r_f is None:
            # one arm terminated: what follows stays control dependent on the test
            return r_f if r_t is None else r_t
        out = r_t.merge(r_f)
        out.ctrl = outer_ctrl
        out.preds = outer_preds
        return out

    def pred_text(self, test, st):
        """Normalised text of a predicate with local definitions inlined."""
        return unparse(test)

    def truth(self, v, node, st):
        """True / False for decided (config) tests, None for input-valued."""
        if v.kind == "bool" and v.sym in (sp.true, sp.false):
            return bool(v.sym)
        if v.kind == "num" and v.sym is not None and v.sym.is_number and v.cfg:
            return bool(not v.sym.is_zero)
        if v.kind == "none":
            return False
        if v.kind == "str" and v.tmpl is not None and v.cfg and "<" not in v.tmpl:
            return bool(v.tmpl)
        if v.kind in ("list", "tuple") and v.items is not None and v.cfg and v.obj is None:
            return bool(len(v.items))
        if v.kind == "dict" and v.items is not None and v.cfg:
            return None if v.extra == "open" else bool(len(v.items))
        if v.cfg and not v.dep:
            key = v.cx
            neg = False
            if key is None:
                fr = self.frames[-1]
                key = "opaque@%s:%s" % (fr.func.qual, unparse(node))
                if self.loops:
                    key += "@" + "/".join(l.tag for l in self.loops)
            while key.startswith("not (") and key.endswith(")"):
                key = key[5:-1]
                neg = not neg
            cmp = v.extra if (isinstance(v.extra, tuple) and len(v.extra) == 4 and v.extra[0] == "cmp") else None
            if cmp:
                self.cmp_info[key] = cmp[1:]
            if self.join_atoms and key not in self.sigma:
                # join mode: configuration atoms are explored like input-valued
                # tests (both arms, merged), the guard is recorded on the events
                self._last_atom = ("not (%s)" % key) if neg else key
                return None
            r = self.ask(key, cmp[1:] if cmp else None)
            return (not r) if neg else r
        self._last_atom = None
        return None

    def st_For(self, s, st):
        it = self.eval(s.iter, st)
        kind, elems = self.iter_elems(s, it, st)
        if kind == "unroll":
            for tag, elem in elems:
                self.loops.append(LoopCtx(s, "literal", unparse(s.iter)[:40], tag, unparse(s.target)))
                self.assign(s.target, elem, st, s, "=")
                st = self._run_body(s, st)
                self.loops.pop()
                if st is None:
                    return None
            if s.orelse:
                st = self.exec_block(s.orelse, st)
            return st
        lk, cx = kind
        peel = self.needs_peel(s)
        carried = self.loop_carried(s, st)
        passes = []
        if peel:
            passes.append("first")
        passes += ["generic", "generic2"]
        pre = st.fork()  # zero-iteration state
        inits = {nm: st.env[nm].sym for nm in carried if nm in st.env}
        offinfo = {}
        for tag in passes:
            elem = elems(tag)
            self.loops.append(LoopCtx(s, lk, cx, tag, unparse(s.target)))
            if tag in ("generic",) and carried:
                first_adv = {nm: (sp.expand(st.env[nm].sym - inits[nm]) if (peel and nm in st.env and st.env[nm].sym is not None and inits.get(nm) is not None) else None) for nm in carried}
                self.havoc_carried(s, carried, st, peel)
                offs = {nm: st.env[nm].sym for nm in carried if nm in st.env}
            self.assign(s.target, elem, st, s, "=")
            st = self._run_body(s, st)
            if tag == "generic" and carried and st is not None:
                for nm in carried:
                    cur = st.env.get(nm)
                    w = None
                    if cur is not None and cur.kind == "num" and cur.sym is not None and nm in offs:
                        w = sp.expand(cur.sym - offs[nm])
                        if any(x.name.startswith("OFF_") for x in w.free_symbols):
                            w = None
                    offinfo[nm] = w
                    overwritten = bool(cur is not None and cur.kind == "num" and cur.sym is not None and nm in offs and offs[nm] not in cur.sym.free_symbols)
                    self.emit("offset", s, st, name=nm, init=inits.get(nm), adv=w, off=offs.get(nm), first_adv=first_adv.get(nm), list_cx=cx, loop_kind=lk, peeled=peel, overwritten=overwritten, endval=cur.sym if (cur is not None and cur.kind == "num") else None)
            self.loops.pop()
            if st is None:
                return None
        # loops over configuration lists / ranges may execute zero times only
        # when the list is empty; surfaces lists are non-empty by contract.
        if lk not in ("cfglist",):
            st = st.merge(pre)
        self.finish_carried(s, carried, st, inits, offinfo, cx, lk)
        if s.orelse:
            st = self.exec_block(s.orelse, st)
        return st

    def _run_body(self, s, st):
        self._loop_pending = getattr(self, "_loop_pending", [])
        self._loop_pending.append([])
        out = self.exec_block(s.body, st)
        pend = self._loop_pending.pop()
        for p in pend:
            out = p if out is None else out.merge(p)
        return out

    def st_Continue(self, s, st):
        if getattr(self, "_loop_pending", None):
            self._loop_pending[-1].append(st)
        return None

    def st_Break(self, s, st):
        if getattr(self, "_loop_pending", None):
            self._loop_pending[-1].append(st)
        return None

    def st_While(self, s, st):
        for _ in range(2):
            self.eval(s.test, st)
            self.loops.append(LoopCtx(s, "while", unparse(s.test)[:40], "generic", ""))
            r = self._run_body(s, st.fork())
            self.loops.pop()
            if r is not None:
                st = st.merge(r)
        return st

    def st_With(self, s, st):
        for it in s.items:
            v = self.eval(it.context_expr, st)
            if it.optional_vars is not None:
                self.assign(it.optional_vars, v, st, s, "=")
        return self.exec_block(s.body, st)

    def st_Try(self, s, st):
        pre = st.fork()
        r = self.exec_block(s.body, st)
        outs = [r] if r is not None else []
        for h in s.handlers:
            hs = pre.fork()
            if h.name:
                hs.env[h.name] = UNKNOWN
            rr = self.exec_block(h.body, hs)
            if rr is not None:
                outs.append(rr)
        if not outs:
            return None
        out = outs[0]
        for o in outs[1:]:
            out = out.merge(o)
        if s.orelse:
            out = self.exec_block(s.orelse, out)
        if s.finalbody and out is not None:
            out = self.exec_block(s.finalbody, out)
        return out

    # ---- loops helpers
    def needs_peel(self, s):
        """Peel the first iteration when the body distinguishes it: compares the
        enumerate index, or tests a flag variable it also assigns."""
        idx = None
        if isinstance(s.target, ast.Tuple) and isinstance(s.iter, ast.Call) and unparse(s.iter.func) == "enumerate":
            if isinstance(s.target.elts[0], ast.Name):
                idx = s.target.elts[0].id
        elif isinstance(s.target, ast.Name) and isinstance(s.iter, ast.Call) and unparse(s.iter.func) in ("range", "np.arange", "numpy.arange"):
            idx = s.target.id
        assigned = set()
        tested = set()
        for n in ast.walk(ast.Module(body=s.body, type_ignores=[])):
            if isinstance(n, ast.Assign):
                for t in n.targets:
                    if isinstance(t, ast.Name) and isinstance(n.value, ast.Constant) and isinstance(n.value.value, bool):
                        assigned.add(t.id)
            if isinstance(n, ast.If):
                for m in ast.walk(n.test):
                    if isinstance(m, ast.Name):
                        tested.add(m.id)
        if idx is not None:
            for n in ast.walk(ast.Module(body=s.body, type_ignores=[])):
                if isinstance(n, ast.Compare) and isinstance(n.left, ast.Name) and n.left.id == idx and len(n.comparators) == 1 and isinstance(n.comparators[0], ast.Constant) and n.comparators[0].value == 0:
                    return True
        return bool(assigned & tested)

    def loop_carried(self, s, st):
        """Names that are read-modify-written across iterations by augmented
        assignment with '+=' on a numeric local bound before the loop."""
        out = {}
        for n in ast.walk(ast.Module(body=s.body, type_ignores=[])):
            if isinstance(n, ast.For) and n is not s:
                continue
            if isinstance(n, ast.AugAssign) and isinstance(n.target, ast.Name) and isinstance(n.op, ast.Add):
                cur = st.env.get(n.target.id)
                if cur is not None and cur.kind == "num" and cur.sym is not None and cur.obj is None and (cur.sym.is_Integer or (cur.sym.is_integer and not cur.sym.is_Float)):
                    out.setdefault(n.target.id, []).append(n)
            elif isinstance(n, ast.Assign) and len(n.targets) == 1 and isinstance(n.targets[0], ast.Name):
                # x = <expr> inside the loop for an integer x bound before the loop and
                # read in the body: a running offset that may (not) be accumulated
                nm = n.targets[0].id
                cur = st.env.get(nm)
                if cur is not None and cur.kind == "num" and cur.sym is not None and cur.obj is None and cur.sym.is_Integer and not isinstance(n.value, ast.Constant):
                    reads = [m for m in ast.walk(ast.Module(body=s.body, type_ignores=[])) if isinstance(m, ast.Name) and m.id == nm and isinstance(m.ctx, ast.Load)]
                    if reads:
                        out.setdefault(nm, []).append(n)
        return out

    def havoc_carried(self, s, carried, st, peeled):
        for nm in carried:
            cur = st.env.get(nm)
            if cur is None:
                continue
            off = sp.Symbol("OFF_%s_L%d" % (nm, s.lineno), integer=True, nonnegative=True)
            st.env[nm] = num(off, cfg=True, cx=None).with_(extra=("offset", nm, s.lineno))

    def finish_carried(self, s, carried, st, inits=None, offinfo=None, cx=None, lk=None):
        """After the loop a carried offset is init + SUM over the list of its
        per-iteration advance (an uninterpreted, linear sum symbol)."""
        for nm in carried:
            cur = st.env.get(nm)
            if cur is None:
                continue
            w = (offinfo or {}).get(nm)
            init = (inits or {}).get(nm)
            if w is not None and init is not None and lk == "cfglist" and cx:
                tot = sp.expand(init + list_sum(cx, w))
                st.env[nm] = num(tot, cfg=True, cx=str(tot)).with_(extra=("total", nm, s.lineno))
                continue
            tot = sp.Symbol("TOT_%s_L%d" % (nm, s.lineno), integer=True, nonnegative=True)
            st.env[nm] = num(tot, cfg=True, cx="TOT_%s_L%d" % (nm, s.lineno)).with_(extra=("total", nm, s.lineno))

    def iter_elems(self, s, it, st):
        """Return (('cfglist'|'range'|'other', cx), elemfn(tag)) or ('unroll', [(tag, elem)])."""
        # enumerate(x)
        node = s.iter
        enum = False
        if isinstance(node, ast.Call) and unparse(node.func) == "enumerate" and node.args:
            enum = True
            it = self.eval(node.args[0], st)
        if isinstance(node, ast.Call) and unparse(node.func) == "zip":
            parts = [self.eval(a, st) for a in node.args]
            dep = frozenset().union(*[p.dep for p in parts]) if parts else frozenset()
            cfg = all(p.cfg for p in parts)
            # zip of literal sequences of known (small, equal) length: unroll exactly
            if parts and all(p.kind in ("list", "tuple") and p.items is not None and p.obj is None for p in parts):
                lens = {len(p.items) for p in parts}
                if len(lens) == 1 and 0 < next(iter(lens)) <= 12:
                    n_ = next(iter(lens))
                    return "unroll", [("lit%d" % i, Val("tuple", items=tuple(p.items[i] for p in parts), dep=dep, cfg=cfg)) for i in range(n_)]

            def elems(tag, parts=parts, dep=dep, cfg=cfg):
                return Val("tuple", items=tuple(self._generic_elem(p, tag, s) for p in parts), dep=dep, cfg=cfg)

            return ("other", unparse(node)[:40]), elems
        # literal dictionary iterated by .items() / .keys() / .values() (or directly): unroll exactly
        dnode = node.args[0] if (enum and isinstance(node, ast.Call) and node.args) else node
        dmeth = None
        if isinstance(dnode, ast.Call) and isinstance(dnode.func, ast.Attribute) and dnode.func.attr in ("items", "keys", "values") and not dnode.args:
            dmeth = dnode.func.attr
            dval = self.eval(dnode.func.value, st)
        elif isinstance(dnode, ast.Name):
            dmeth = "keys"
            dval = st.env.get(dnode.id)
        if dmeth and dval is not None and dval.kind == "dict" and dval.items is not None and dval.extra != "open" and dval.obj is None and 0 < len(dval.items) <= 12 and all(isinstance(k_, str) and "<" not in k_ and "?" not in k_ for k_ in dval.items):
            out_ = []
            for i_, (k_, v_) in enumerate(dval.items.items()):
                kv = Val("str", tmpl=k_, cfg=True, cx=repr(k_))
                el = kv if dmeth == "keys" else (v_ if dmeth == "values" else Val("tuple", items=(kv, v_), cfg=True))
                if enum:
                    el = Val("tuple", items=(num(i_, cx=str(i_)), el), cfg=True)
                out_.append(("lit%d" % i_, el))
            return "unroll", out_
        idxname = None
        if enum and isinstance(s.target, ast.Tuple) and isinstance(s.target.elts[0], ast.Name):
            idxname = s.target.elts[0].id

        def wrap(elem, tag):
            if not enum:
                return elem
            if tag == "first":
                iv = num(0, cx="0")
            elif self.needs_peel(s):
                iv = num(sp.Symbol("%s_L%d" % (idxname or "i", s.lineno), integer=True, positive=True), cx=idxname or "i")
            else:
                iv = num(sp.Symbol("%s_L%d" % (idxname or "i", s.lineno), integer=True, nonnegative=True), cx=idxname or "i")
            return Val("tuple", items=(iv, elem), cfg=elem.cfg, dep=elem.dep)

        if it.kind == "cfglist":
            def elems(tag, it=it):
                return wrap(self._generic_elem(it, tag, s), tag)

            return ("cfglist", it.cx), elems
        if it.kind == "arr" and isinstance(it.extra, tuple) and it.extra and it.extra[0] == "arange" and it.cfg:
            it = Val("range", extra=(it.extra[1], it.extra[2]), cfg=True, dep=it.dep, cx=it.cx)
        if it.kind == "range" and not enum:
            lo0, hi0 = it.extra
            try:
                small = lo0 is not None and hi0 is not None and sp.sympify(lo0).is_Integer and sp.sympify(hi0).is_Integer and 0 < int(hi0) - int(lo0) <= 12
            except Exception:
                small = False
            if small:
                # a literal trip count: unroll, so that element stores get literal indices
                return "unroll", [("lit%d" % i, num(i, cx=str(i))) for i in range(int(lo0), int(hi0))]
        if it.kind == "range":
            lo, hi = it.extra
            def elems(tag, lo=lo, hi=hi, it=it):
                if tag == "first" and lo is not None:
                    return wrap(num(lo, cx=str(lo)), tag)
                nm = unparse(s.target) if isinstance(s.target, ast.Name) else "i"
                if self.needs_peel(s) and lo is not None and lo == 0:
                    return wrap(num(sp.Symbol("%s_L%d" % (nm, s.lineno), integer=True, positive=True), cfg=it.cfg, cx=nm if it.cfg else None, dep=it.dep), tag)
                return wrap(num(sp.Symbol("%s_L%d" % (nm, s.lineno), integer=True, nonnegative=True), cfg=it.cfg, cx=nm if it.cfg else None, dep=it.dep), tag)

            return ("range", it.cx or unparse(node)[:40]), elems
        if it.kind in ("list", "tuple") and it.items is not None and it.obj is None and (len(it.items) <= 12 and it.cfg or 0 < len(it.items) <= 4):
            items = list(it.items)
            if enum:
                return "unroll", [("lit%d" % i, Val("tuple", items=(num(i, cx=str(i)), e), cfg=True)) for i, e in enumerate(items)]
            return "unroll", [("lit%d" % i, e) for i, e in enumerate(items)]
        if it.kind == "dict" and it.items is not None:
            def elems(tag, it=it):
                vs = list(it.items.values())
                return wrap(Val("str", cfg=it.cfg, dep=it.dep), tag)

            return ("other", unparse(node)[:40]), elems

        def elems(tag, it=it):
            return wrap(self._generic_elem(it, tag, s), tag)

        return ("other", unparse(node)[:40]), elems

    def _generic_elem(self, it, tag, s):
        if it.kind == "cfglist":
            which = "[0]" if tag == "first" else "[i]"
            return Val("cfgdict", cfg=True, cx=it.cx + which, extra=it.extra)
        if it.kind in ("list", "tuple") and it.items:
            e = None
            for x in it.items:
                e = x if e is None else join(e, x)
            return e
        if it.kind in ("arr", "num", "cfgval"):
            shp = it.shape[1:] if it.shape and len(it.shape) > 1 else None
            return Val("arr" if shp else "num", dep=it.dep, cfg=it.cfg, shape=shp, obj=it.obj, view="part" if it.obj is not None else None, dom=dict(it.dom))
        return Val("unknown", dep=it.dep, cfg=it.cfg)

    # ------------------------------------------------------------------ expressions
    def eval(self, n, st):
        if n is None:
            return NONE
        m = getattr(self, "ex_" + type(n).__name__, None)
        if m is None:
            dep = frozenset()
            for ch in ast.iter_child_nodes(n):
                if isinstance(ch, ast.expr):
                    dep |= self.eval(ch, st).dep
            return Val("unknown", dep=dep)
        v = m(n, st)
        if self.domains:
            # domain values are attached to a private copy: values returned by
            # reference (names, tuple items, attributes) are never mutated
            v = v.with_()
            for d in self.domains:
                d.on_expr(self, n, v, st)
        return v

    def ex_Constant(self, n, st):
        c = n.value
        if isinstance(c, bool):
            return boolv(c)
        if isinstance(c, (int, float)):
            return num(sp.Integer(c) if isinstance(c, int) else sp.Float(c) if c != int(c) or abs(c) > 1e15 else sp.Float(c), cx=repr(c)).with_(extra=("lit", c))
        if isinstance(c, str):
            return strv(c)
        if c is None:
            return NONE
        if c is Ellipsis:
            return Val("slice", extra=(None, None, None), cfg=True)
        return Val("unknown", cfg=True)

    def ex_JoinedStr(self, n, st):
        out = ""
        ok = True
        dep = frozenset()
        for v in n.values:
            if isinstance(v, ast.Constant):
                out += str(v.value)
            else:
                r = self.eval(v.value, st)
                dep |= r.dep
                s = self.to_tmpl(r)
                if s is None:
                    ok = False
                else:
                    out += s
        if not ok:
            return Val("str", dep=dep, cfg=not dep)
        return Val("str", tmpl=out, cfg=True, cx=repr(out))

    def to_tmpl(self, r):
        if r.kind == "str" and r.tmpl is not None:
            return r.tmpl
        if r.kind == "num" and r.sym is not None and r.sym.is_number:
            return str(r.sym)
        if r.kind == "ext" and isinstance(r.extra, str):
            return "<const:%s>" % r.extra.split(":")[-1]
        if r.cx and r.cfg:
            return "<%s>" % r.cx
        if r.kind == "num" and r.sym is not None:
            return "<%s>" % r.sym
        return None

    def _elem_prov(self, v):
        """Configuration-list element the value was derived from, if any."""
        if v.sym is not None:
            for x in v.sym.free_symbols:
                for suf, cx in (("_i", "surfaces"), ("_0", "surfaces"), ("_si", "sections"), ("_s0", "sections")):
                    if x.name.endswith(suf) and x.name[:2] in ("nx", "ny"):
                        return cx
        if v.cx:
            for lst in ("surfaces", "sections"):
                if lst + "[i]" in v.cx or lst + "[0]" in v.cx:
                    return lst
        if v.tmpl:
            for lst in ("surfaces", "sections"):
                if lst + "[i]" in v.tmpl or lst + "[0]" in v.tmpl:
                    return lst
        # a direct view of a per-element input/output such as inputs[name + "_S_ref"]
        if isinstance(v.obj, tuple) and len(v.obj) > 1 and v.obj[0] in ("in", "out") and isinstance(v.obj[1], str):
            for lst in ("surfaces", "sections"):
                if lst + "[i]" in v.obj[1] or lst + "[0]" in v.obj[1]:
                    return lst
        return None

    def ex_Name(self, n, st):
        v = st.env.get(n.id)
        if v is not None:
            if self.loops and isinstance(n.ctx, ast.Load):
                ac = self.assign_ctx.get((len(self.frames), n.id))
                if ac is not None and ac[2] is not None:
                    aloops, aline, prov = ac
                    cur_nodes = [l.node for l in self.loops]
                    inner = [l for l in self.loops if l.kind in ("cfglist", "range") and (l.kind == "cfglist" and l.cx.split("[")[-1].strip("']") == prov or prov in (l.cx or ""))]
                    foreign = [l for l in aloops if l.node not in cur_nodes and (l.kind in ("cfglist", "range")) and (prov in (l.cx or ""))]
                    if inner and foreign:
                        self.emit("stale_elem", n, st, name=n.id, assigned_line=aline, loop_a=foreign[-1].node.lineno, loop_b=inner[-1].node.lineno, list_cx=prov, val=v)
            return v
        fr = self.frames[-1]
        mod = fr.func.mod
        r = self.repo.resolve_name(mod, n.id)
        if r is not None:
            k, tgt = r
            if k == "func":
                return Val("func", extra=tgt, cfg=True)
            if k == "class":
                return Val("class", extra=tgt, cfg=True)
            if k == "module":
                return Val("module", extra=tgt, cfg=True)
            if k == "ext":
                return Val("ext", extra=tgt, cfg=True)
            if k == "const":
                m2, nm = tgt
                return self.module_const(m2, nm, st)
        if n.id in mod.global_assigns:
            return self.module_const(mod, n.id, st)
        if n.id in ("True", "False"):
            return boolv(n.id == "True")
        if n.id in __builtins__ if isinstance(__builtins__, dict) else hasattr(__builtins__, n.id):
            return Val("ext", extra="builtins." + n.id, cfg=True)
        return UNKNOWN

    def module_const(self, mod, name, st):
        assigns = mod.global_assigns.get(name, [])
        oid = ("global", mod.rel, name)
        v = Val("arr", cfg=True, obj=oid, view="whole", cx="%s:%s" % (mod.dotted.split(".")[-1], name), extra=("global", mod.rel, name))
        if len(assigns) == 1 and isinstance(assigns[0], ast.Assign):
            val = assigns[0].value
            if isinstance(val, ast.Constant) and isinstance(val.value, (int, float)) and not isinstance(val.value, bool):
                return num(val.value, cx="%s:%s" % (mod.dotted.split(".")[-1], name)).with_(extra=("global", mod.rel, name))
            if isinstance(val, ast.Constant) and isinstance(val.value, str):
                return strv(val.value)
        return v

    def ex_Attribute(self, n, st):
        # self.attr
        if isinstance(n.value, ast.Name) and n.value.id == "self" and st.env.get("self", UNKNOWN).kind == "self":
            if n.attr == "options":
                return Val("options", cfg=True, cx="options")
            from .npsem import FRAMEWORK_METHODS

            if n.attr in FRAMEWORK_METHODS and (self.cls is None or n.attr not in self.cls.methods):
                return Val("fw", extra=n.attr, cfg=True)
            a = st.attrs.get(n.attr)
            if a is not None:
                self.emit("attr_read", n, st, attr=n.attr, val=a)
                return a
            if self.cls is not None and n.attr in self.cls.methods:
                return Val("func", extra=self.cls.methods[n.attr], cfg=True, cx="self." + n.attr)
            if self.cls is not None and n.attr in self.cls.class_attrs:
                cst = self.cls.class_attrs[n.attr]
                if isinstance(cst.value, (ast.Tuple, ast.Constant)):
                    # an immutable class-level constant (tuple of names, number, string): its value
                    try:
                        ast.literal_eval(cst.value)
                        v_ = self.eval(cst.value, st)
                        self.emit("attr_read", n, st, attr=n.attr, val=v_, classattr=True)
                        return v_
                    except (ValueError, SyntaxError):
                        pass
                self.emit("attr_read", n, st, attr=n.attr, val=None, classattr=True)
                return Val("unknown", cfg=True, cx="cls." + n.attr, obj=("classattr", self.cls.name, n.attr), view="whole")
            self.emit("attr_read", n, st, attr=n.attr, val=None)
            if n.attr in ("comm", "pathname", "name", "under_complex_step", "under_approx", "iter_count", "matrix_free"):
                return Val("unknown", cfg=True, cx="self." + n.attr)
            return Val("unknown", cx=None, extra=("unset_attr", n.attr))
        b = self.eval(n.value, st)
        at = n.attr
        if b.kind == "module":
            m2 = b.extra
            if at in m2.functions:
                return Val("func", extra=m2.functions[at], cfg=True)
            if at in m2.classes:
                return Val("class", extra=m2.classes[at], cfg=True)
            if at in m2.global_assigns:
                return self.module_const(m2, at, st)
            return Val("unknown", cfg=True)
        if b.kind == "ext":
            full = b.extra + "." + at
            if full in ("numpy.pi", "numpy.e", "numpy.inf", "numpy.newaxis"):
                if at == "newaxis":
                    return NONE
                return num({"pi": sp.pi, "e": sp.E, "inf": sp.oo}[at], cx="np." + at)
            return Val("ext", extra=full, cfg=True)
        if b.kind == "class":
            c = b.extra
            return Val("unknown", cfg=True, cx="%s.%s" % (getattr(c, "name", c), at), extra=("classattr", getattr(c, "name", str(c)), at))
        if at == "shape":
            shp = b.shape
            if shp is None and b.obj is not None and b.view == "whole" and b.obj in st.heap:
                shp = st.heap[b.obj].shape
            items = tuple(num(x) if x is not None else Val("num", cfg=True) for x in shp) if shp is not None else None
            return Val("tuple", items=items, cfg=True, cx=(b.cx + ".shape") if b.cx else None, extra=("shape_of", shp))
        if at in ("size",):
            if b.shape is not None and all(x is not None for x in b.shape):
                tot = sp.Integer(1)
                for x in b.shape:
                    tot *= x
                return num(tot)
            return Val("num", cfg=True, cx=(b.cx + ".size") if b.cx else None)
        if at in ("dtype", "ndim", "itemsize"):
            return Val("unknown", cfg=True, cx=(b.cx + "." + at) if b.cx else "meta." + at, extra=("meta", at, b))
        if at == "T":
            shp = tuple(reversed(b.shape)) if b.shape else None
            return b.with_(shape=shp, view="reshape" if b.obj is not None else None, sym=None, cx=None)
        if at in ("real", "imag"):
            return b.with_(view=b.view, sym=b.sym if at == "real" else None, extra=("realpart", at))
        if at == "flat":
            return b.with_(shape=None, view="reshape" if b.obj is not None else None)
        if at == "data" and b.kind in ("unknown", "arr", "obj"):
            return b.with_(kind="arr", shape=None, view="part" if b.obj is not None else None)
        if b.kind == "cfgdict":
            return Val("func", extra=("cfgdict_method", b, at), cfg=True)
        if b.kind == "options":
            return Val("func", extra=("options_method", b, at), cfg=True)
        # method of a value -> bound method marker
        return Val("boundmethod", extra=(b, at), dep=b.dep, cfg=b.cfg, cx=(b.cx + "." + at) if b.cx else None)

    # --- subscripts
    def eval_slice(self, sl, st):
        if isinstance(sl, ast.Slice):
            lo = self.eval(sl.lower, st) if sl.lower is not None else None
            hi = self.eval(sl.upper, st) if sl.upper is not None else None
            step = self.eval(sl.step, st) if sl.step is not None else None
            dep = frozenset()
            for x in (lo, hi, step):
                if x is not None:
                    dep |= x.dep

            def s_(x):
                if x is None:
                    return None
                return x.sym if (x.kind == "num" and x.sym is not None) else "?"

            return Val("slice", extra=(s_(lo), s_(hi), s_(step)), dep=dep, cfg=all(x is None or x.cfg for x in (lo, hi, step)))
        if isinstance(sl, ast.Tuple):
            items = tuple(self.eval_slice(e, st) for e in sl.elts)
            dep = frozenset()
            for x in items:
                dep |= x.dep
            return Val("tuple", items=items, dep=dep, cfg=all(x.cfg for x in items))
        return self.eval(sl, st)

    def ex_Slice(self, n, st):
        return self.eval_slice(n, st)

    def ex_Subscript(self, n, st):
        b = self.eval(n.value, st)
        if b.kind == "vec":
            k = self.eval(n.slice, st)
            cell = self.cell_of(b.extra, k)
            return self.read_cell(cell, n, st)
        if b.kind == "options":
            k = self.eval(n.slice, st)
            key = k.tmpl if k.kind == "str" else "?"
            return self.option_value(key, st, n)
        if b.kind == "cfgdict":
            k = self.eval(n.slice, st)
            key = k.tmpl if (k.kind == "str" and k.tmpl is not None) else None
            return self.cfg_value(b, key, n, st, k)
        if b.kind == "cfglist":
            k = self.eval_slice(n.slice, st)
            if k.kind == "num":
                if k.sym is not None and k.sym.is_number:
                    idx = str(int(k.sym))
                else:
                    idx = "i"
                return Val("cfgdict", cfg=True, cx="%s[%s]" % (b.cx, idx), extra=b.extra)
            if k.kind == "slice":
                return b
            return Val("cfgdict", cfg=True, cx="%s[i]" % b.cx, extra=b.extra)
        if b.kind == "dict":
            k = self.eval(n.slice, st)
            kk = self.to_tmpl(k) or k.cx or "?"
            if b.items is not None and kk in b.items:
                return b.items[kk]
            if b.items:
                e = None
                for x in b.items.values():
                    e = x if e is None else join(e, x)
                # generic key: any stored value (keys are name templates)
                for kt, x in b.items.items():
                    if self._tmpl_unify(kt, kk):
                        return x
                return e
            return Val("unknown", dep=b.dep, cfg=b.cfg)
        sv = self.eval_slice(n.slice, st)
        if b.kind in ("tuple", "list") and b.items is not None and sv.kind == "num" and sv.sym is not None and sv.sym.is_number:
            i = int(sv.sym)
            if -len(b.items) <= i < len(b.items):
                return b.items[i]
        if b.kind in ("tuple", "list") and b.items is not None:
            if sv.kind == "slice":
                lo, hi, stp = sv.extra
                if all(x is None or (x != "?" and sp.sympify(x).is_number) for x in (lo, hi, stp)):
                    sl = slice(*(None if x is None else int(x) for x in (lo, hi, stp)))
                    return b.with_(items=type(b.items)(b.items[sl]) if isinstance(b.items, tuple) else b.items[sl])
            e = None
            for x in b.items:
                e = x if e is None else join(e, x)
            if e is not None:
                return e.with_(dep=e.dep | sv.dep)
        if b.kind == "str":
            return Val("str", cfg=b.cfg, dep=b.dep)
        # array subscript
        self.note_offslice(n, st, b, n.slice, sv, unparse(n)[:100])
        shape, is_view = self.sub_shape(b.shape, n.slice, sv)
        dep = b.dep | sv.dep
        if b.obj is not None and b.obj in st.heap and b.kind != "cfgval":
            dep |= st.heap[b.obj].dep
        kind = "arr"
        if shape == () and is_view:
            # every axis indexed by an integer: numpy returns a scalar (a copy), not a view
            is_view = False
            kind = "num"
            shape = None
        res = Val(
            kind,
            dep=dep,
            cfg=b.cfg and sv.cfg,
            shape=shape,
            obj=b.obj if is_view else None,
            view=("part" if b.view in ("whole", "part") else b.view) if (is_view and b.obj is not None) else None,
            cx=("%s[%s]" % (b.cx, unparse(n.slice))) if (b.cx and sv.cfg and len(b.cx) < 120) else None,
            dom=dict(b.dom),
            extra=("sub", b, n.slice, sv) if b.obj is not None else None,
            mayc=b.mayc if is_view else frozenset(),
        )
        return res

    def note_offslice(self, n, st, base, slnode, sv, text):
        elts = list(slnode.elts) if isinstance(slnode, ast.Tuple) else [slnode]
        vals = list(sv.items) if (sv.kind == "tuple" and isinstance(slnode, ast.Tuple)) else [sv]
        shape = base.shape
        if shape is None and base.obj is not None and base.view == "whole" and base.obj in st.heap:
            shape = st.heap[base.obj].shape
        ax = 0
        for e, v in zip(elts, vals):
            if v.kind == "none":
                continue
            if v.kind == "slice":
                lo, hi, stp = v.extra
                syms = set()
                for x in (lo, hi):
                    if x is not None and x != "?":
                        syms |= {y.name for y in sp.sympify(x).free_symbols}
                if any(y.startswith("OFF_") for y in syms):
                    dim = shape[ax] if (shape is not None and ax < len(shape)) else None
                    self.emit("offslice", n, st, lo=lo, hi=hi, step=stp, axis=ax, dim=dim, text=text, base=base, whole_view=(base.view == "whole" or base.obj is None), lo_src=unparse(e.lower) if (isinstance(e, ast.Slice) and e.lower is not None) else None, hi_src=unparse(e.upper) if (isinstance(e, ast.Slice) and e.upper is not None) else None)
            ax += 1

    def sub_shape(self, shape, slnode, sv):
        """Shape of x[sl]; is_view False for fancy indexing."""
        elts = list(slnode.elts) if isinstance(slnode, ast.Tuple) else [slnode]
        vals = list(sv.items) if (sv.kind == "tuple" and isinstance(slnode, ast.Tuple)) else [sv]
        is_view = True
        for v in vals:
            if v.kind in ("arr", "list") or (v.kind == "unknown"):
                is_view = False
            if v.kind == "bool" or (v.kind == "arr"):
                is_view = False
        if shape is None:
            return None, is_view
        out = []
        ax = 0
        n_ell = sum(1 for e in elts if isinstance(e, ast.Constant) and e.value is Ellipsis)
        n_real = sum(1 for e, v in zip(elts, vals) if not (isinstance(e, ast.Constant) and (e.value is Ellipsis or e.value is None)) and v.kind != "none")
        for e, v in zip(elts, vals):
            if isinstance(e, ast.Constant) and e.value is Ellipsis:
                k = len(shape) - n_real
                out.extend(shape[ax: ax + k])
                ax += k
                continue
            if v.kind == "none":
                out.append(sp.Integer(1))
                continue
            if ax >= len(shape):
                return None, is_view
            dim = shape[ax]
            if v.kind == "slice":
                lo, hi, stp = v.extra
                if stp is not None and stp != "?" and sp.sympify(stp) == -1 and lo is None and hi is None:
                    out.append(dim)
                elif stp is not None:
                    out.append(None)
                elif dim is None or lo == "?" or hi == "?":
                    out.append(None)
                else:
                    out.append(self.slice_len(lo, hi, dim))
                ax += 1
            elif v.kind == "num":
                ax += 1
            elif v.kind in ("arr", "list", "tuple"):
                # fancy index: result dims of the index array
                if v.shape is not None and len(v.shape) == 1:
                    out.append(v.shape[0])
                else:
                    out.append(None)
                ax += 1
            else:
                out.append(None)
                ax += 1
        out.extend(shape[ax:])
        return tuple(out), is_view

    def slice_len(self, lo, hi, dim):
        def norm(x, default):
            if x is None:
                return default
            x = sp.sympify(x)
            if x.is_number and x < 0:
                return dim + x
            return x

        a = norm(lo, sp.Integer(0))
        b = norm(hi, dim)
        return sp.expand(b - a)

    def read_cell(self, cell, n, st):
        role = cell[0]
        o = st.heap.get(cell)
        shape = self.cell_shape(cell)
        if role == "in":
            dep = frozenset({"in:" + cell[1]})
            self.emit("read", n, st, cell=cell)
            return Val("arr", dep=dep, obj=cell, view="whole", shape=shape, extra=("cell", cell))
        if role == "out":
            self.emit("read", n, st, cell=cell)
            fn = self.frames[0].func.name
            if fn in ("compute", "solve_nonlinear") and o is not None and o.stored:
                dep = frozenset(o.dep)
            else:
                dep = frozenset({"out:" + cell[1]}) | (frozenset(o.dep) if o is not None else frozenset())
            return Val("arr", dep=dep, obj=cell, view="whole", shape=shape, extra=("cell", cell))
        self.emit("read", n, st, cell=cell)
        dep = frozenset(o.dep) if o is not None else frozenset()
        if role in ("d_in", "d_out", "d_res"):
            dep = dep | {"%s:%s" % (role, cell[1])}
        return Val("arr", dep=dep, obj=cell, view="whole", shape=shape, extra=("cell", cell))

    def option_value(self, key, st, n):
        if key in CFG_DICT_KEYS:
            return Val("cfgdict", cfg=True, cx=key, extra=key)
        if key in CFG_LIST_KEYS:
            return Val("cfglist", cfg=True, cx=key, extra=key)
        if key == "mesh_shape":
            nx, ny = self.mesh_syms("surface")
            return Val("tuple", items=(num(nx), num(ny), num(3)), cfg=True, cx="options['mesh_shape']", extra=("shape_of", (nx, ny, sp.Integer(3))))
        return Val("cfgval", cfg=True, cx="options[%r]" % key, extra=("option", key), obj=("cfg", "options", key), view="whole")

    def mesh_syms(self, cx):
        suf = {"surface": "", "surfaces[i]": "_i", "surfaces[0]": "_0", "sections[i]": "_si", "sections[0]": "_s0", "section": "_s"}.get(cx)
        if suf is None:
            suf = "_" + "".join(ch if ch.isalnum() else "_" for ch in (cx or "unk"))
        return sp.Symbol("nx" + suf, integer=True, positive=True), sp.Symbol("ny" + suf, integer=True, positive=True)

    def cfg_value(self, b, key, n, st, kval=None):
        if key is None:
            return Val("cfgval", cfg=True, cx=None, obj=("cfg", b.cx, "?"), view="whole")
        cx = "%s[%r]" % (b.cx or "cfg?", key)
        self.emit("cfg_read", n, st, src=b.cx or "cfg?", key=key)
        if key == "name":
            return Val("str", tmpl="<%s.name>" % b.cx, cfg=True, cx=cx)
        if key == "mesh":
            nx, ny = self.mesh_syms(b.cx)
            return Val("cfgval", cfg=True, cx=cx, obj=("cfg", b.cx, "mesh"), view="whole", shape=(nx, ny, sp.Integer(3)))
        if key in CFG_LIST_KEYS:
            return Val("cfglist", cfg=True, cx=cx, extra=key)
        return Val("cfgval", cfg=True, cx=cx, obj=("cfg", b.cx, key), view="whole")

    def _tmpl_unify(self, a, b):
        if a is None or b is None:
            return False
        return a == b or a.replace("[0]", "[i]") == b.replace("[0]", "[i]")

    # --- literals / containers
    def ex_Tuple(self, n, st):
        items = tuple(self.eval(e, st) for e in n.elts)
        dep = frozenset()
        for x in items:
            dep |= x.dep
        cfg = all(x.cfg for x in items)
        cx = None
        if cfg and all(x.cx for x in items) and sum(len(x.cx) for x in items) < 100:
            cx = "(" + ", ".join(x.cx for x in items) + ")"
        return Val("tuple", items=items, dep=dep, cfg=cfg, cx=cx)

    def ex_List(self, n, st):
        v = self.ex_Tuple(n, st)
        return v.with_(kind="list", items=list(v.items), cx=v.cx)

    def ex_Dict(self, n, st):
        items = {}
        dep = frozenset()
        cfg = True
        for k, v in zip(n.keys, n.values):
            vv = self.eval(v, st)
            dep |= vv.dep
            cfg = cfg and vv.cfg
            if k is None:
                continue
            kv = self.eval(k, st)
            items[kv.tmpl if kv.kind == "str" and kv.tmpl is not None else (kv.cx or "?")] = vv
        return Val("dict", items=items, dep=dep, cfg=cfg)

    def ex_Set(self, n, st):
        v = self.ex_Tuple(n, st)
        return v.with_(kind="set")

    def ex_ListComp(self, n, st):
        saved = dict(st.env)
        dep = frozenset()
        cfg = True
        # comprehension over literal sequences without conditions: evaluate it exactly (<= 24 elements)
        if isinstance(n, ast.ListComp) and all(not g.ifs and not g.is_async for g in n.generators):
            import itertools

            seqs = []
            ok = True
            for g in n.generators:
                try:
                    itv = self.eval(g.iter, st)
                except Exception:
                    ok = False
                    break
                if itv.kind in ("list", "tuple") and itv.items is not None and itv.obj is None and 0 < len(itv.items) <= 12:
                    seqs.append(list(itv.items))
                else:
                    ok = False
                    break
            st.env = dict(saved)
            if ok:
                total = 1
                for q in seqs:
                    total *= len(q)
                if total <= 24:
                    items = []
                    for combo in itertools.product(*seqs):
                        for g, v_ in zip(n.generators, combo):
                            self.assign(g.target, v_, st, n, "=")
                        items.append(self.eval(n.elt, st))
                    st.env = saved
                    d_ = frozenset().union(*[x.dep for x in items]) if items else frozenset()
                    return Val("list", items=items, dep=d_, cfg=all(x.cfg for x in items))
            st.env = dict(saved)
        for g in n.generators:
            it = self.eval(g.iter, st)
            dep |= it.dep
            cfg = cfg and it.cfg
            class _S:  # minimal For-like shim
                pass
            elem = self._generic_elem(it, "generic", n) if it.kind != "range" else num(sp.Symbol("c_L%d" % n.lineno, integer=True, nonnegative=True), cfg=it.cfg, dep=it.dep)
            if isinstance(g.iter, ast.Call) and unparse(g.iter.func) == "enumerate" and g.iter.args:
                inner = self.eval(g.iter.args[0], st)
                elem = Val("tuple", items=(num(sp.Symbol("c_L%d" % n.lineno, integer=True, nonnegative=True)), self._generic_elem(inner, "generic", n)), cfg=inner.cfg, dep=inner.dep)
            self.assign(g.target, elem, st, n, "=")
            for c in g.ifs:
                self.eval(c, st)
        if isinstance(n, ast.DictComp):
            e = self.eval(n.value, st)
            self.eval(n.key, st)
        else:
            e = self.eval(n.elt, st)
        st.env = saved
        return Val("list", dep=dep | e.dep, cfg=cfg and e.cfg, items=None, extra=("comp", e), dom=dict(e.dom))

    ex_GeneratorExp = ex_ListComp
    ex_SetComp = ex_ListComp
    ex_DictComp = ex_ListComp

    def ex_Starred(self, n, st):
        return self.eval(n.value, st)

    def ex_Lambda(self, n, st):
        return Val("func", extra=("lambda", n), cfg=True)

    def ex_IfExp(self, n, st):
        tv = self.eval(n.test, st)
        t = self.truth(tv, n.test, st)
        if t is True:
            return self.eval(n.body, st)
        if t is False:
            return self.eval(n.orelse, st)
        self.emit("test", n, st, pred=self.pred_text(n.test, st), dep=tv.dep, val=tv, expr=True)
        a = self.eval(n.body, st)
        b = self.eval(n.orelse, st)
        j = join(a, b)
        return j.with_(dep=j.dep | tv.dep, cfg=False, cx=None)

    def ex_NamedExpr(self, n, st):
        v = self.eval(n.value, st)
        self.assign(n.target, v, st, n, "=")
        return v

    # --- operators
    def ex_UnaryOp(self, n, st):
        v = self.eval(n.operand, st)
        if isinstance(n.op, ast.Not):
            if v.kind == "bool" and v.sym in (sp.true, sp.false):
                return boolv(not bool(v.sym))
            if v.kind == "num" and v.sym is not None and v.sym.is_number and v.cfg:
                return boolv(bool(v.sym.is_zero))
            return Val("bool", dep=v.dep, cfg=v.cfg, cx=("not (%s)" % v.cx) if v.cx else None, extra=v.extra if False else None)
        if isinstance(n.op, ast.USub):
            return v.with_(sym=(-v.sym) if v.sym is not None else None, cx=("-%s" % v.cx) if v.cx else None, obj=None, view=None, extra=("lit", -v.extra[1]) if (isinstance(v.extra, tuple) and v.extra and v.extra[0] == "lit") else None)
        if isinstance(n.op, ast.UAdd):
            return v.with_(obj=None, view=None)
        return v.with_(sym=None, cx=None, obj=None, view=None)

    def ex_BoolOp(self, n, st):
        is_and = isinstance(n.op, ast.And)
        dep = frozenset()
        vals = []
        for e in n.values:
            v = self.eval(e, st)
            t = self.truth(v, e, st)
            if t is None:
                vals.append(v)
                dep |= v.dep
                continue
            if is_and and t is False:
                return boolv(False) if not vals else Val("bool", dep=dep, cfg=False)
            if (not is_and) and t is True:
                return (boolv(True) if v.kind in ("bool", "cfgval", "num") else v) if not vals else Val("bool", dep=dep, cfg=False)
        if not vals:
            return boolv(is_and)
        if len(vals) == 1:
            return vals[0]
        return Val("bool", dep=dep, cfg=False)

    def ex_Compare(self, n, st):
        left = self.eval(n.left, st)
        if len(n.ops) != 1:
            dep = left.dep
            cfg = left.cfg
            for c in n.comparators:
                v = self.eval(c, st)
                dep |= v.dep
                cfg = cfg and v.cfg
            return Val("bool", dep=dep, cfg=cfg, cx=None)
        op = n.ops[0]
        right = self.eval(n.comparators[0], st)
        ops = {ast.Eq: "==", ast.NotEq: "!=", ast.Lt: "<", ast.LtE: "<=", ast.Gt: ">", ast.GtE: ">=", ast.Is: "is", ast.IsNot: "is not", ast.In: "in", ast.NotIn: "not in"}
        o = ops[type(op)]
        dep = left.dep | right.dep
        cfg = left.cfg and right.cfg
        # membership in a configuration dict
        if o in ("in", "not in"):
            tgt = right
            if right.kind == "boundmethod":
                pass
            if tgt.kind == "cfgdict" and left.kind == "str" and left.tmpl is not None:
                cx = "%r in %s" % (left.tmpl, tgt.cx)
                self.emit("cfg_read", n, st, src=tgt.cx, key=left.tmpl, membership=True)
                v = Val("bool", cfg=True, cx=cx)
                return v if o == "in" else Val("bool", cfg=True, cx="not (%s)" % cx)
            if tgt.kind == "dict" and tgt.items is not None and left.kind == "str" and left.tmpl is not None and tgt.extra != "open":
                r = left.tmpl in tgt.items
                return boolv(r if o == "in" else not r)
            if tgt.kind in ("list", "tuple") and tgt.items is not None and tgt.cfg and left.kind == "str" and left.tmpl is not None and "<" not in left.tmpl and all(x.kind == "str" and x.tmpl is not None for x in tgt.items):
                r = left.tmpl in [x.tmpl for x in tgt.items]
                return boolv(r if o == "in" else not r)
            cx = "%s %s %s" % (left.cx, o, right.cx) if (cfg and left.cx and right.cx) else None
            return Val("bool", dep=dep, cfg=cfg, cx=cx)
        # fully known numbers
        if left.kind == "num" and right.kind == "num" and left.sym is not None and right.sym is not None and left.cfg and right.cfg:
            d = sp.expand(left.sym - right.sym)
            if d.is_number:
                z = bool(d.is_zero)
                res = {"==": z, "!=": not z, "<": d < 0, "<=": z or d < 0, ">": d > 0, ">=": z or d > 0}.get(o)
                if res is not None:
                    return boolv(bool(res))
            elif not any(s.name.startswith(("OFF_", "TOT_")) for s in d.free_symbols):
                # symbolic mesh-size comparison
                if o in ("==", "!=") and (d.is_positive or d.is_negative):
                    return boolv(o == "!=")
                if o in (">=",) and sym_nonneg(d):
                    return boolv(True)
                if o in ("<",) and sym_nonneg(d):
                    return boolv(False)
                if o in ("<=",) and sym_nonneg(-d):
                    return boolv(True)
                if o in (">",) and sym_nonneg(-d):
                    return boolv(False)
                if o in (">",) and sym_nonneg(d - 1):
                    return boolv(True)
                if o in ("<",) and sym_nonneg(-d - 1):
                    return boolv(True)
        if left.kind == "str" and right.kind == "str" and left.tmpl is not None and right.tmpl is not None and "<" not in left.tmpl + right.tmpl and o in ("==", "!="):
            return boolv((left.tmpl == right.tmpl) == (o == "=="))
        if o in ("is", "is not") and right.kind == "none":
            if left.kind == "none":
                return boolv(o == "is")
            if left.kind in ("num", "arr", "str", "tuple", "list", "dict", "cfgdict", "cfglist") and not (isinstance(left.extra, tuple) and left.extra and left.extra[0] in ("unset_attr", "maybe_unset")):
                return boolv(o != "is")
        cx = None
        extra = None
        if cfg and left.cx and right.cx and len(left.cx) + len(right.cx) < 160:
            lcx, rcx, oo = left.cx, right.cx, o
            # canonical orientation: literal on the right
            if isinstance(left.extra, tuple) and left.extra and left.extra[0] == "lit" and not (isinstance(right.extra, tuple) and right.extra and right.extra[0] == "lit"):
                lcx, rcx = rcx, lcx
                oo = {"<": ">", ">": "<", "<=": ">=", ">=": "<=", "==": "==", "!=": "!="}.get(o, o)
                left, right = right, left
            if oo == "!=":
                cx = "not (%s == %s)" % (lcx, rcx)
            elif oo == "is not":
                cx = "not (%s is %s)" % (lcx, rcx)
            else:
                cx = "%s %s %s" % (lcx, oo, rcx)
            if isinstance(right.extra, tuple) and right.extra and right.extra[0] == "lit" and oo in ("==", "<", "<=", ">", ">=") and isinstance(right.extra[1], (int, float)):
                extra = ("cmp", lcx, oo, right.extra[1])
            if oo in ("==", "is") and right.kind == "bool" and right.sym == sp.true:
                cx = lcx
            if oo in ("==", "is") and right.kind == "bool" and right.sym == sp.false:
                cx = "not (%s)" % lcx
        return Val("bool", dep=dep, cfg=cfg, cx=cx, extra=extra)

    def ex_BinOp(self, n, st):
        a = self.eval(n.left, st)
        b = self.eval(n.right, st)
        return self.binop(n, type(n.op), a, b, st, n)

    def binop(self, n, op, a, b, st, where):
        dep = a.dep | b.dep
        cfg = a.cfg and b.cfg
        # strings
        if op is ast.Add and (a.kind == "str" or b.kind == "str"):
            ta, tb = self.to_tmpl(a), self.to_tmpl(b)
            if ta is not None and tb is not None and {a.kind, b.kind} <= {"str", "cfgval", "ext"}:
                return Val("str", tmpl=ta + tb, cfg=True, cx=repr(ta + tb))
            return Val("str", dep=dep, cfg=cfg)
        if op is ast.Mod and a.kind == "str":
            return Val("str", dep=dep, cfg=cfg)
        if op is ast.Add and a.kind in ("list", "tuple") and b.kind in ("list", "tuple"):
            items = None
            if a.items is not None and b.items is not None:
                items = type(a.items)(list(a.items) + list(b.items))
            return Val(a.kind, items=items, dep=dep, cfg=cfg)
        if op is ast.Mult and a.kind in ("list", "tuple") and b.kind == "num":
            return Val(a.kind, items=None, dep=dep, cfg=cfg, extra=("comp", join_all(a.items)) if a.items else None)
        sym = None
        if a.kind == "num" and b.kind == "num" and a.sym is not None and b.sym is not None and a.obj is None and b.obj is None:
            try:
                if op is ast.Add:
                    sym = a.sym + b.sym
                elif op is ast.Sub:
                    sym = a.sym - b.sym
                elif op is ast.Mult:
                    sym = a.sym * b.sym
                elif op is ast.Div:
                    sym = a.sym / b.sym
                elif op is ast.FloorDiv:
                    q = a.sym / b.sym
                    sym = sp.floor(q) if not (a.sym.is_integer and b.sym.is_integer and sp.simplify(q).is_integer) else sp.simplify(q)
                elif op is ast.Pow:
                    sym = a.sym ** b.sym
                elif op is ast.Mod:
                    sym = sp.Mod(a.sym, b.sym)
                if sym is not None:
                    sym = sp.expand(sym) if not sym.has(sp.floor) else sym
            except Exception:
                sym = None
        if op is ast.Add:
            for x, y in ((a, b), (b, a)):
                if x.kind == "num" and x.sym is not None and x.obj is None and any(z.name.startswith("OFF_") for z in x.sym.free_symbols) and y.kind == "arr":
                    self.emit("offadd", where, st, off=x.sym, arr=y, text=unparse(where)[:100] if where is not None else "")
        shape = self.bshape(a, b) if op is not ast.MatMult else None
        kind = "num" if (a.kind == "num" and b.kind == "num") else ("arr" if {a.kind, b.kind} <= {"num", "arr", "cfgval", "unknown"} else "unknown")
        cx = None
        if cfg and a.cx and b.cx and len(a.cx) + len(b.cx) < 120:
            osym = {ast.Add: "+", ast.Sub: "-", ast.Mult: "*", ast.Div: "/", ast.FloorDiv: "//", ast.Pow: "**", ast.Mod: "%"}.get(op)
            if osym:
                cx = "(%s %s %s)" % (a.cx, osym, b.cx)
        if sym is not None and cfg and (sym.is_number or cx is None) and not any(x.name.startswith("OFF_") for x in sym.free_symbols):
            cx = str(sym)
        return Val(kind, sym=sym, shape=shape, dep=dep, cfg=cfg, cx=cx)

    def bshape(self, a, b):
        sa = a.shape if a.kind not in ("num",) or a.shape else ()
        sb = b.shape if b.kind not in ("num",) or b.shape else ()
        if a.kind == "num" and a.shape is None:
            sa = ()
        if b.kind == "num" and b.shape is None:
            sb = ()
        if sa is None or sb is None:
            return None
        out = []
        for x, y in itertools.zip_longest(reversed(sa), reversed(sb)):
            if x is None and y is None:
                out.append(None)
            elif x is None or (x is not None and x == 1 and y is not None):
                out.append(y)
            elif y is None or y == 1:
                out.append(x)
            else:
                out.append(x)
        return tuple(reversed(out))

    # ------------------------------------------------------------------ calls
    def ex_Call(self, n, st):
        from . import npsem

        f = self.eval(n.func, st)
        args = []
        for a in n.args:
            if isinstance(a, ast.Starred):
                v = self.eval(a.value, st)
                if v.items is not None and isinstance(v.items, (list, tuple)):
                    args.extend(v.items)
                else:
                    args.append(v)
            else:
                args.append(self.eval(a, st))
        kwargs = {}
        for k in n.keywords:
            if k.arg is None:
                v = self.eval(k.value, st)
                if v.kind == "dict" and v.items:
                    kwargs.update(v.items)
                continue
            kwargs[k.arg] = self.eval(k.value, st)
        return npsem.call(self, n, f, args, kwargs, st)

    def inline(self, func, n, args, kwargs, st, selfval=None):
        """Interpret a repository function at a call site."""
        a = func.node.args
        names = [x.arg for x in a.posonlyargs + a.args]
        bind = {}
        pos = list(args)
        if names and names[0] == "self":
            bind["self"] = selfval or Val("self", cfg=True)
            names = names[1:]
        for nm, v in zip(names, pos):
            bind[nm] = v
        if a.vararg and len(pos) > len(names):
            bind[a.vararg.arg] = Val("tuple", items=tuple(pos[len(names):]))
        for k, v in kwargs.items():
            bind[k] = v
        # a helper that modifies an array parameter in place (p[k] = ..., p *= ...) acts on the
        # caller's array: give a caller local that has no heap object yet its own object first
        mutated = set()
        for x in ast.walk(func.node):
            if isinstance(x, ast.AugAssign) and isinstance(x.target, ast.Name):
                mutated.add(x.target.id)
            elif isinstance(x, (ast.Assign, ast.AugAssign)):
                for t_ in (x.targets if isinstance(x, ast.Assign) else [x.target]):
                    b_ = t_
                    while isinstance(b_, ast.Subscript):
                        b_ = b_.value
                    if b_ is not t_ and isinstance(b_, ast.Name):
                        mutated.add(b_.id)
        if mutated and isinstance(n, ast.Call):
            for nm, a_node in zip(names, n.args):
                if nm in mutated and isinstance(a_node, ast.Name) and a_node.id in st.env:
                    cur = st.env[a_node.id]
                    if cur.obj is None and cur.kind == "arr":
                        fr = self.frames[-1]
                        oid = ("local", fr.func.qual, a_node.id, 0)
                        o = Obj(oid, dep=cur.dep, shape=cur.shape, cfg=cur.cfg)
                        o.dom = dict(cur.dom)
                        st.heap[oid] = o
                        nv = cur.with_(obj=oid, view="whole")
                        st.env[a_node.id] = nv
                        bind[nm] = nv
        self.emit("call", n, st, callee=func, args=args, kwargs=kwargs, inlined=True)
        self.last_inlined[id(n)] = func
        saved = st.env
        saved_ctrl, saved_preds = st.ctrl, st.preds
        val, out = self.call_function(func, bind, st, n)
        st.ctrl, st.preds = saved_ctrl, saved_preds
        if out is None:
            self._dead = True
            st.env = saved
            return val
        # call_function restored env on 'out' (which may be a merged state object)
        if out is not st:
            st.env = out.env
            st.heap = out.heap
            st.attrs = out.attrs
        st.env = saved
        return val


def join_all(items):
    e = None
    for x in items or ():
        e = x if e is None else join(e, x)
    return e


# ---------------------------------------------------------------------- driver
class Run:
    """Result of one interpretation of an entry method under one valuation."""

    def __init__(self, func, sigma, interp, result):
        self.func = func
        self.sigma = dict(sigma)
        self.events = interp.events
        self.final = interp.final_state
        self.result = result
        self.warnings = interp.warnings
        self.cmp_info = dict(interp.cmp_info)
        self.join_mode = False
        self.domains = {d.name: d for d in interp.domains}

    def compatible(self, other_sigma):
        for k, v in self.sigma.items():
            if k in other_sigma and other_sigma[k] != v:
                return False
        return True

    def ev(self, kind):
        return [e for e in self.events if e.kind == kind]


def enumerate_runs(repo, cls, func, make_interp, bind=None, max_runs=MAX_RUNS, join_fallback=None):
    """Run ``func`` under every reachable valuation of its configuration atoms.
    With ``join_fallback`` (a factory of join-mode interpreters) a method with
    too many independent atoms is analysed once with guarded events instead."""
    try:
        return _enumerate_runs(repo, cls, func, make_interp, bind, max_runs if join_fallback is None else min(max_runs, 96))
    except AnalysisError:
        if join_fallback is None:
            raise
    it = join_fallback({})
    res = it.run_entry(func, bind)
    r = Run(func, {}, it, res)
    r.join_mode = True
    return [r]


def _enumerate_runs(repo, cls, func, make_interp, bind=None, max_runs=MAX_RUNS):
    work = [{}]
    runs = []
    cmp_info = {}
    n = 0
    while work:
        sigma = work.pop()
        n += 1
        if n > max_runs * 4:
            raise AnalysisError("valuation explosion in %s" % func.qual)
        it = make_interp(sigma)
        it.cmp_info.update(cmp_info)
        try:
            res = it.run_entry(func, bind)
        except NeedAtom as e:
            cmp_info.update(it.cmp_info)
            work.append(dict(sigma, **{e.atom: False}))
            work.append(dict(sigma, **{e.atom: True}))
            continue
        except RecursionError:
            raise AnalysisError("recursion while interpreting %s" % func.qual)
        runs.append(Run(func, sigma, it, res))
        if len(runs) > max_runs:
            raise AnalysisError("more than %d valuations in %s" % (max_runs, func.qual))
    return runs
