"""C17 -- performance / flight-condition functionals satisfy their defining
identities (I1: formulas of the property statement vs expressions extracted
from compute(); I2: derivative identities of the same components; CM
normalisation depends on the first surface only)."""
import sympy as sp

from ..model import component_model
from ..symx import SymX, equal
from .common import norm_name, sig_txt, where

G = "const:grav_constant"


def grav(repo):
    from ..load import const_fold

    m = repo.module("openaerostruct/utils/constants.py")
    a = m.global_assigns.get("grav_constant")
    return sp.nsimplify(const_fold(a[0].value), rational=True)


class Acc:
    """symbol access for one run: scalar inputs by name, per-surface inputs as
    the list of symbols of the loop passes present."""

    def __init__(self, table):
        self.t = table

    def s(self, name):
        for nm, sym in self.t.syms.items():
            if nm == name:
                return sym
        return None

    def per_surface(self, suffix):
        out = {}
        for nm, sym in self.t.syms.items():
            base, _, tag = nm.partition("@")
            if base.endswith(">" + suffix) and tag:
                out[tag] = sym
        return out


def _out(run, name):
    ob = run.final.heap.get(("out", name))
    return ob.dom.get("SYMX") if ob is not None else None


def check_identity(chk, rule, key, wh, got, want, table, what):
    if got is None or want is None:
        chk.undecided(rule, key, wh, "expression not extracted" if got is None else "specification symbol missing", algebraic=True)
        return
    r = equal(got, want, table)
    if r is True:
        chk.ok(rule, key, wh, what, algebraic=True)
    elif r is False:
        chk.violation(rule, key, wh, "compute() gives %s but the defining identity is %s" % (_short(got), _short(want)), algebraic=True)
    else:
        chk.undecided(rule, key, wh, "normal forms not comparable: %s vs %s" % (_short(got), _short(want)), algebraic=True)


def _short(e):
    s = str(e)
    return s if len(s) < 200 else s[:197] + "..."


def i1(chk, repo, only=None, rule="I1", min_decided=12):
    chk.rule(rule, "the value computed by compute() equals the defining formula of the property statement as an identity of expressions, for generic surfaces (L = q S CL, CL = sum CL_i S_i / S, L_equals_W = 1 - L/W, W = (W0 + sum Ws + Wf) g n, Breguet fuel burn, mass-weighted cg, v-independent Reynolds number per length, CD = CDi + CDv + CDw + CD0, S_ref_total = sum S_i)", min_decided=min_decided)
    F = "openaerostruct/functionals/"

    def runs_of(rel, cname):
        c = repo.cls(rel, cname)
        if only is not None and cname not in only:
            return c, []
        m = component_model(repo, c, domains=(SymX,))
        return c, [r for r in m.runs.get("compute", []) if r.final is not None]

    # ---- TotalLiftDrag
    c, runs = runs_of(F + "total_lift_drag.py", "TotalLiftDrag")
    for r in runs:
        t = r.domains["SYMX"].table
        a = Acc(t)
        CLs, CDs, Ss = a.per_surface("_CL"), a.per_surface("_CD"), a.per_surface("_S_ref")
        rho, v, St = a.s("rho"), a.s("v"), a.s("S_ref_total")
        if not CLs or None in (rho, v, St):
            chk.undecided(rule, "TotalLiftDrag", c.where, "symbols not found")
            continue
        sCL = sum(CLs[k] * Ss[k] for k in CLs)
        sCD = sum(CDs[k] * Ss[k] for k in CDs)
        q = sp.Rational(1, 2) * rho * v**2
        tag = sig_txt(r.sigma)
        check_identity(chk, rule, "TotalLiftDrag.CL %s" % tag, c.where, _out(r, "CL"), sCL / St, t, "CL = sum CL_i S_i / S_ref_total")
        check_identity(chk, rule, "TotalLiftDrag.CD %s" % tag, c.where, _out(r, "CD"), sCD / St, t, "CD = sum CD_i S_i / S_ref_total")
        CLo, CDo = _out(r, "CL"), _out(r, "CD")
        check_identity(chk, rule, "TotalLiftDrag.L %s" % tag, c.where, _out(r, "L"), q * St * CLo if CLo is not None else None, t, "L = q S_ref_total CL")
        check_identity(chk, rule, "TotalLiftDrag.D %s" % tag, c.where, _out(r, "D"), q * St * CDo if CDo is not None else None, t, "D = q S_ref_total CD")
    # ---- SumAreas
    c, runs = runs_of(F + "sum_areas.py", "SumAreas")
    for r in runs:
        t = r.domains["SYMX"].table
        Ss = Acc(t).per_surface("_S_ref")
        check_identity(chk, rule, "SumAreas.S_ref_total", c.where, _out(r, "S_ref_total"), sum(Ss.values()) if Ss else None, t, "S_ref_total = sum S_i")
    # ---- Equilibrium
    c, runs = runs_of(F + "equilibrium.py", "Equilibrium")
    for r in runs:
        t = r.domains["SYMX"].table
        a = Acc(t)
        Ws = a.per_surface("_structural_mass")
        W0, Wf, n, g = a.s("W0"), a.s("fuelburn"), a.s("load_factor"), grav(repo)
        rho, v, S, CL = a.s("rho"), a.s("v"), a.s("S_ref_total"), a.s("CL")
        if None in (W0, Wf, n, g, rho, v, S, CL) or not Ws:
            chk.undecided(rule, "Equilibrium", c.where, "symbols not found")
            continue
        W = (W0 + sum(Ws.values()) + Wf) * g * n
        check_identity(chk, rule, "Equilibrium.total_weight", c.where, _out(r, "total_weight"), W, t, "W = (W0 + sum Ws + Wf) g n")
        check_identity(chk, rule, "Equilibrium.L_equals_W", c.where, _out(r, "L_equals_W"), 1 - sp.Rational(1, 2) * rho * v**2 * S * CL / W, t, "1 - L/W")
    # ---- BreguetRange
    c, runs = runs_of(F + "breguet_range.py", "BreguetRange")
    for r in runs:
        t = r.domains["SYMX"].table
        a = Acc(t)
        Ws = a.per_surface("_structural_mass")
        W0, R, CT, a_, M, CD, CL = a.s("W0"), a.s("R"), a.s("CT"), a.s("speed_of_sound"), a.s("Mach_number"), a.s("CD"), a.s("CL")
        if None in (W0, R, CT, a_, M, CD, CL) or not Ws:
            chk.undecided(rule, "BreguetRange", c.where, "symbols not found")
            continue
        check_identity(chk, rule, "BreguetRange.fuelburn", c.where, _out(r, "fuelburn"), (W0 + sum(Ws.values())) * (sp.exp(R * CT / (a_ * M) * CD / CL) - 1), t, "(W0 + sum Ws)(exp(R CT/(a M) CD/CL) - 1)")
    # ---- CenterOfGravity (given Equilibrium's W = (W0 + sum Ws + Wf) g n, the denominator is W0 + sum m_i)
    c, runs = runs_of(F + "center_of_gravity.py", "CenterOfGravity")
    for r in runs:
        t = r.domains["SYMX"].table
        a = Acc(t)
        ms, cgs = a.per_surface("_structural_mass"), a.per_surface("_cg_location")
        W0, cg0, Wf, n, g, W = a.s("W0"), a.s("empty_cg"), a.s("fuelburn"), a.s("load_factor"), grav(repo), a.s("total_weight")
        if n is None:
            n = t.get("load_factor")
        if None in (W0, cg0, Wf, n, g, W) or not ms:
            chk.undecided(rule, "CenterOfGravity", c.where, "symbols not found")
            continue
        got = _out(r, "cg")
        if got is not None:
            got = got.subs(W, (W0 + sum(ms.values()) + Wf) * g * n)
        want = (W0 * cg0 + sum(ms[k] * cgs[k] for k in ms)) / (W0 + sum(ms.values()))
        check_identity(chk, rule, "CenterOfGravity.cg", c.where, got, want, t, "cg = (W0 cg0 + sum m_i cg_i)/(W0 + sum m_i) with W from Equilibrium")
    # ---- ReynoldsComp
    c, runs = runs_of("openaerostruct/common/reynolds_comp.py", "ReynoldsComp")
    for r in runs:
        t = r.domains["SYMX"].table
        a = Acc(t)
        rho, v, mu = a.s("rho"), a.s("v"), a.s("mu")
        check_identity(chk, rule, "ReynoldsComp.re", c.where, _out(r, "re"), rho * v / mu if None not in (rho, v, mu) else None, t, "re = rho v / mu")
    # ---- TotalDrag
    c, runs = runs_of("openaerostruct/aerodynamics/total_drag.py", "TotalDrag")
    for r in runs:
        t = r.domains["SYMX"].table
        a = Acc(t)
        cdi, cdv, cdw = a.s("CDi"), a.s("CDv"), a.s("CDw")
        got = _out(r, "CD")
        cd0 = [s for s in (got.free_symbols if got is not None else ()) if s.name.startswith("cfg:") and "CD0" in s.name]
        check_identity(chk, rule, "TotalDrag.CD", c.where, _out(r, "CD"), cdi + cdv + cdw + cd0[0] if (None not in (cdi, cdv, cdw) and cd0) else None, t, "CD = CDi + CDv + CDw + CD0")
    # ---- Coeffs
    c, runs = runs_of("openaerostruct/aerodynamics/coeffs.py", "Coeffs")
    for r in runs:
        t = r.domains["SYMX"].table
        a = Acc(t)
        L, D, rho, v, S = a.s("L"), a.s("D"), a.s("rho"), a.s("v"), a.s("S_ref")
        if None in (L, D, rho, v, S):
            chk.undecided(rule, "Coeffs", c.where, "symbols not found")
            continue
        q = sp.Rational(1, 2) * rho * v**2
        check_identity(chk, rule, "Coeffs.CL1", c.where, _out(r, "CL1"), L / (q * S), t, "CL1 = L/(q S)")
        check_identity(chk, rule, "Coeffs.CDi", c.where, _out(r, "CDi"), D / (q * S), t, "CDi = D/(q S)")
    # ---- MomentCoefficient: CM = M / (q S_tot MAC_first), MAC_first from the first surface only
    c = repo.cls(F + "moment_coefficient.py", "MomentCoefficient")
    m = component_model(repo, c, domains=(SymX,))
    ratios = {}
    for r in m.runs.get("compute", []) if (only is None or "MomentCoefficient" in only) else []:
        if r.final is None:
            continue
        t = r.domains["SYMX"].table
        a = Acc(t)
        CM, Mx = _out(r, "CM"), _out(r, "M")
        rho, v, S = a.s("rho"), a.s("v"), a.s("S_ref_total")
        tag = sig_txt(r.sigma)
        if CM is None or Mx is None or None in (rho, v, S):
            chk.undecided(rule, "MomentCoefficient.CM %s" % tag, c.where, "expression not extracted", algebraic=True)
            continue
        mac = sp.simplify(Mx / (CM * sp.Rational(1, 2) * rho * v**2 * S))
        names = {s.name for s in mac.free_symbols}
        other = sorted(n for n in names if n.endswith(("@1", "@2")))
        key = "MomentCoefficient.CM %s" % tag
        if other:
            chk.violation(rule, key, c.where, "CM = M/(q S_ref_total c) with c = %s, which depends on surfaces other than the first (%s): CM must be normalised by the first surface's mean aerodynamic chord" % (_short(mac), other), algebraic=True)
        elif any(n.startswith("opq") for n in names):
            chk.undecided(rule, key, c.where, "normalising length not isolated: %s" % _short(mac), algebraic=True)
        else:
            chk.ok(rule, key, c.where, "CM = M/(q S_ref_total MAC) with MAC = %s of the first surface" % _short(mac), algebraic=True)
            first = tuple(sorted((k, v_) for k, v_ in r.sigma.items() if "[0]" in k))
            ratios.setdefault(first, []).append((tag, mac, t))
    for first, lst in ratios.items():
        t0, m0, tb = lst[0]
        for tg, mc, _ in lst[1:]:
            key = "MomentCoefficient: MAC independent of the other surfaces' options %s vs %s" % (t0, tg)
            r = equal(m0, mc, tb)
            if r is True:
                chk.ok(rule, key, c.where, "same normalising chord", algebraic=True)
            elif r is False:
                chk.violation(rule, key, c.where, "the normalising chord of CM changes with the options of a surface other than the first: %s vs %s" % (_short(m0), _short(mc)), algebraic=True)
            else:
                chk.undecided(rule, key, c.where, "", algebraic=True)


def i4(chk, repo):
    """One interpolant per quantity over the whole altitude range."""
    chk.rule("I4", "AtmosComp evaluates every quantity with one interpolant of the altitude over the whole tabulated range: neither compute nor compute_partials (helpers included) branches on the altitude or the Mach number, so the outputs are as continuous as the splines", min_decided=2)
    c = repo.cls("openaerostruct/common/atmos_comp.py", "AtmosComp")
    m = component_model(repo, c)
    for mn in ("compute", "compute_partials"):
        for r in m.runs.get(mn, []):
            if r.final is None:
                continue
            tests = [e for e in r.events if e.kind == "test" and any(str(d_).startswith("in:") for d_ in (e.d.get("dep") or ()))]
            key = "AtmosComp.%s" % mn
            if tests:
                e = tests[0]
                chk.violation("I4", key, "%s:%d" % (e.func.mod.rel, e.lineno), "the value is selected by a test on an input (%s in %s): a second formula is spliced into the tabulated atmosphere, which makes the outputs discontinuous where the test flips unless the two agree exactly there" % (" ".join((e.d.get("pred") or "").split())[:80], e.func.qual))
            else:
                chk.ok("I4", key, c.where, "no input-valued branch")


def run(chk, repo, tier):
    from .c01 import p7

    i1(chk, repo)
    i3(chk, repo)
    i4(chk, repo)
    p7(chk, repo, tier, only={"TotalLiftDrag", "Equilibrium", "BreguetRange", "CenterOfGravity", "ReynoldsComp", "Coeffs"}, rule="I2")
    i5(chk, repo)


PERF_INPUTS = {"load_factor", "W0", "CT", "R", "speed_of_sound", "Mach_number", "rho", "v", "alpha", "beta", "cg", "S_ref_total", "empty_cg", "total_weight", "re"}


def i5(chk, repo):
    """Every functional sees the same flight condition and weights as its siblings."""
    from .c16 import exposure

    exposure(chk, repo, "I5", PERF_INPUTS, groups={"TotalPerformance", "TotalAeroPerformance"}, min_decided=12,
             text="in the performance groups (TotalPerformance, TotalAeroPerformance), wherever a functional has an input named like a flight-condition or weight quantity (load_factor, W0, CT, R, speed_of_sound, Mach_number, rho, v, alpha, beta, cg, S_ref_total, empty_cg, total_weight, re; not fuelburn, whose connection is an option of the group) the group promotes it under that name: a functional left on its own default (e.g. the centre of gravity weighting fuel at 1 g while total_weight uses the manoeuvre load factor) makes the metrics mutually inconsistent")


# --------------------------------------------------------------------------- I3
def i3(chk, repo):
    """Mutual consistency of the literal standard-atmosphere tables (constant
    folding of the source data; no code is run)."""
    import ast
    import math

    from ..load import AnalysisError, const_fold

    chk.rule("I3", "the tabulated standard-atmosphere data are mutually consistent at every node: a = sqrt(gamma R T), P = rho R T (English units of the table), temperature / pressure / density / speed-of-sound columns have the same length as the altitude column, altitude strictly increasing, pressure and density strictly decreasing", min_decided=200)
    m = repo.module("openaerostruct/common/atmos_comp.py")
    tabs = {}
    for st in m.tree.body:
        if isinstance(st, ast.Assign) and isinstance(st.targets[0], ast.Attribute) and isinstance(st.targets[0].value, ast.Name) and st.targets[0].value.id == "USatm1976Data":
            try:
                tabs[st.targets[0].attr] = ([float(x) for x in const_fold(st.value)], st.lineno)
            except (ValueError, TypeError):
                pass
    need = ("alt", "T", "P", "rho", "a")
    if any(k not in tabs for k in need):
        raise AnalysisError("atmosphere tables %s not found as literal data in atmos_comp.py" % [k for k in need if k not in tabs])
    alt, T, P, rho, a = (tabs[k][0] for k in need)
    n = len(alt)
    for k in need[1:]:
        key = "USatm1976Data.%s: length" % k
        w = "%s:%d" % (m.rel, tabs[k][1])
        if len(tabs[k][0]) == n:
            chk.ok("I3", key, w, "%d entries" % n)
        else:
            chk.violation("I3", key, w, "column has %d entries, altitude has %d" % (len(tabs[k][0]), n))
            return
    R, gam = 1716.49, 1.4  # ft*lbf/(slug*degR), ratio of specific heats (US standard atmosphere 1976)
    TOL = 5e-4  # table entries are rounded to 5-6 significant digits (observed consistency 1e-4)
    for i in range(n):
        h = alt[i]
        wa = "%s:%d" % (m.rel, tabs["a"][1] + 2 + i)
        wp = "%s:%d" % (m.rel, tabs["P"][1] + 2 + i)
        da = abs(a[i] - math.sqrt(gam * R * T[i])) / a[i]
        key = "speed of sound at %g ft" % h
        if da < TOL:
            chk.ok("I3", key, wa, "a = sqrt(gamma R T) to %.1e" % da)
        else:
            chk.violation("I3", key, wa, "tabulated speed of sound %s ft/s differs from sqrt(gamma R T) = %.2f ft/s by %.1f%%: speed of sound, v = M a and the Reynolds number are inconsistent with the temperature around this altitude" % (a[i], math.sqrt(gam * R * T[i]), 100 * da))
        dp = abs(P[i] * 144.0 - rho[i] * R * T[i]) / (P[i] * 144.0)
        key = "ideal gas at %g ft" % h
        if dp < TOL:
            chk.ok("I3", key, wp, "P = rho R T to %.1e" % dp)
        else:
            chk.violation("I3", key, wp, "tabulated pressure %s psi differs from rho R T = %.5f psi by %.1f%%: the atmosphere outputs are not mutually consistent around this altitude" % (P[i], rho[i] * R * T[i] / 144.0, 100 * dp))
    for nm, arr, inc in (("alt", alt, True), ("P", P, False), ("rho", rho, False)):
        bad = [i for i in range(1, n) if (arr[i] <= arr[i - 1]) == inc]
        key = "USatm1976Data.%s: strictly %s" % (nm, "increasing" if inc else "decreasing")
        w = "%s:%d" % (m.rel, tabs[nm][1])
        if not bad:
            chk.ok("I3", key, w, "monotone")
        else:
            chk.violation("I3", key + " at %g ft" % alt[bad[0]], "%s:%d" % (m.rel, tabs[nm][1] + 2 + bad[0]), "%s is not monotone at %g ft (%s after %s)" % (nm, alt[bad[0]], arr[bad[0]], arr[bad[0] - 1]))
