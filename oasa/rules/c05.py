"""C05 -- structural clauses of the vortex-lattice method.

  V1  Helmholtz closure of the vortex system built by EvalVelMtx.compute: the
      finite filaments of every ring form a closed cycle over the four panel
      corners, the last row sheds its rear segment into two semi-infinite legs
      along the angle-of-attack direction, and no filament ends in the fluid
  V2  chordwise fractions: collocation points at 3/4 chord, force points and
      bound vectors at 1/4 chord (mid-span), ring corners at the panel quarter
      chords with the trailing edge kept
  V3  Kutta-Joukowski: panel force = rho x circulation x (velocity x bound vector)
  V4  tangency system: rhs = -(free-stream . normal), mtx = (AIC . normal)
"""
import re

import sympy as sp

from ..model import component_model
from ..symx import SymX, equal
from .c17 import _short
from .common import sig_txt

A = "openaerostruct/aerodynamics/"
FIN = "H__compute_finite_vortex"
SEMI = "H__compute_semi_infinite_vortex"


def _terms(e, coef=sp.Integer(1), path=()):
    """[(coefficient, kernel atom, path of subscripts)] of a linear combination of kernel results."""
    e = sp.expand(e) if not e.atoms(sp.Function) else e
    if e.func == sp.Add:
        out = []
        for a in e.args:
            r = _terms(a, coef, path)
            if r is None:
                return None
            out += r
        return out
    if e.func == sp.Mul:
        inner = [f for f in e.args if any(x.func.__name__ in (FIN, SEMI, "SUB") for x in f.atoms(sp.Function))]
        if len(inner) != 1:
            return None
        c = sp.Mul(*[f for f in e.args if f is not inner[0]])
        return _terms(inner[0], coef * c, path)
    if isinstance(e, sp.Function) and e.func.__name__ == "SUB":
        return _terms(e.args[0], coef, path + (str(e.args[1]),))
    if isinstance(e, sp.Function) and e.func.__name__ in (FIN, SEMI):
        return [(coef, e, path)]
    return None


def _corner(sym):
    """(base, (chordwise offset, spanwise offset), last_row?) of a corner symbol such as
    V[:,:-1,1:] or V[:,:nx][:,1:,1:][:,-1:]"""
    n = sym.name if isinstance(sym, sp.Symbol) else None
    if n is None:
        return None
    last = n.endswith("[:,-1:]")
    if last:
        n = n[: -len("[:,-1:]")]
    m = re.match(r"^(.*)\[:,(:-1|1:),(:-1|1:)\]$", n)
    if not m:
        return None
    return m.group(1), (0 if m.group(2) == ":-1" else 1, 0 if m.group(3) == ":-1" else 1), last


def v1(chk, repo):
    chk.rule("V1", "EvalVelMtx.compute: per surface (and per image surface) the finite filaments added to the influence matrix are the directed cycle over the four distinct corners of each panel of the vectors input with one common strength (every corner has as much circulation arriving as leaving), the last chordwise row adds the reversed rear segment and two semi-infinite legs of opposite sign from its two rear corners so that the rear corners stay balanced (the bound vortex at the trailing edge is cancelled and shed), both legs use the same direction, and that direction is (cos alpha, 0, sin alpha)", min_decided=8)
    c = repo.cls(A + "eval_mtx.py", "EvalVelMtx")
    m = component_model(repo, c, domains=(SymX,))
    for r in m.runs.get("compute", []):
        if r.final is None:
            continue
        t = r.domains["SYMX"].table
        tag = sig_txt(r.sigma)
        ring, last = [], []
        bad = False
        for e in r.events:
            if e.kind != "store" or not (isinstance(e.d.get("cell"), tuple) and e.d["cell"][0] == "out"):
                continue
            op = e.d.get("op")
            if op not in ("+=", "-="):
                continue
            v = e.d.get("val")
            d = v.dom.get("SYMX") if v is not None else None
            if d is None:
                bad = True
                continue
            ts = _terms(d if op == "+=" else -d)
            if ts is None:
                bad = True
                continue
            cs = (e.d.get("csubs") or ("",))[0]
            (last if cs.replace(" ", "") == ":,-1:" else ring).extend(ts)
        key = "EvalVelMtx %s" % tag
        if bad or not ring or not last:
            chk.undecided("V1", key, c.where, "kernel contributions not extracted (%d ring, %d last-row terms)" % (len(ring), len(last)), algebraic=True)
            continue
        # group by (base array, path): one vortex system per (image) surface and mirrored half
        systems = {}
        und = False
        for coef, atom, path in ring + last:
            is_last = (coef, atom, path) in last
            if atom.func.__name__ == FIN:
                p, q = _corner(atom.args[0]), _corner(atom.args[1])
                if p is None or q is None or p[0] != q[0]:
                    und = True
                    continue
                systems.setdefault((p[0], path), []).append(("fin", coef, p, q, atom))
            else:
                q = _corner(atom.args[1])
                if q is None:
                    und = True
                    continue
                systems.setdefault((q[0], path), []).append(("semi", coef, atom.args[0], q, atom))
        if und:
            chk.undecided("V1", key, c.where, "corner slices not recognised", algebraic=True)
            continue
        # a last-row path may be the ring path seen through the [:, -1:] store: merge by base only when paths agree
        bybase = {}
        for (base, path), lst in systems.items():
            bybase.setdefault(base, {}).setdefault(path, []).extend(lst)
        for base, paths in sorted(bybase.items(), key=lambda kv: kv[0]):
            bkey = "%s system %s" % (key, re.sub(r"<[^>]*>", "", base))
            problems = []
            n_edges = 0
            dirs = set()
            for path, lst in paths.items():
                inc = {}
                corners_ring = set()
                for kind, coef, a, b, atom in lst:
                    n_edges += 1
                    if kind == "fin":
                        inc[(a[1], a[2])] = inc.get((a[1], a[2]), 0) - coef  # leaves a
                        inc[(b[1], b[2])] = inc.get((b[1], b[2]), 0) + coef  # arrives at b
                        if not a[2]:
                            corners_ring.add(a[1])
                            corners_ring.add(b[1])
                    else:
                        inc[(b[1], b[2])] = inc.get((b[1], b[2]), 0) - coef  # leaves b towards infinity
                        dirs.add(a)
                for node, w in inc.items():
                    if sp.simplify(w) != 0:
                        problems.append("corner %s%s (part %s): net circulation %s ends there" % (node[0], " of the last row" if node[1] else "", "/".join(path) or "whole", sp.simplify(w)))
                if corners_ring and corners_ring != {(0, 0), (0, 1), (1, 0), (1, 1)}:
                    problems.append("ring visits corners %s, not the four corners of the panel" % sorted(corners_ring))
            # the last row reverses the rear segment of the ring
            fins = [(k, cf, a, b) for lst in paths.values() for (k, cf, a, b, _) in lst if k == "fin"]
            rear_ring = [(cf, a, b) for k, cf, a, b in fins if not a[2] and a[1][0] == 1 and b[1][0] == 1]
            rear_last = [(cf, a, b) for k, cf, a, b in fins if a[2] and b[2]]
            if not rear_last:
                problems.append("no reversed rear segment on the last row: the trailing-edge bound vortex is not shed")
            for cf, a, b in rear_last:
                match = [x for x in rear_ring if x[1][1] == b[1] and x[2][1] == a[1] and sp.simplify(x[0] - cf) == 0]
                if not match:
                    problems.append("last-row segment %s->%s (strength %s) does not cancel a rear ring segment" % (a[1], b[1], cf))
            semis = [x for lst in paths.values() for x in lst if x[0] == "semi"]
            if len({str(x[2]) for x in semis}) > 1:
                problems.append("the two trailing legs use different directions")
            if not semis:
                problems.append("no semi-infinite trailing legs")
            if problems:
                chk.violation("V1", bkey, c.where, "; ".join(problems[:4]), algebraic=True)
            else:
                chk.ok("V1", bkey, c.where, "%d filament terms, every corner balanced" % n_edges, algebraic=True)
            # wake direction
            for u in dirs:
                k2 = "%s wake direction" % key
                al = t.syms.get("alpha[0]") or t.syms.get("alpha")
                if isinstance(u, sp.MatrixBase) and al is not None:
                    want = sp.Matrix([sp.cos(sp.pi * al / 180), 0, sp.sin(sp.pi * al / 180)])
                    res = equal(sp.Matrix(u), want, t)
                    if res is True:
                        chk.ok("V1", k2, c.where, "(cos a, 0, sin a)", algebraic=True)
                    elif res is False:
                        chk.violation("V1", k2, c.where, "trailing legs leave along %s, not along the angle-of-attack direction (cos a, 0, sin a)" % list(u), algebraic=True)
                    else:
                        chk.undecided("V1", k2, c.where, str(list(u)), algebraic=True)
                else:
                    chk.undecided("V1", k2, c.where, "direction not extracted", algebraic=True)


def _coeffs(e, t):
    """{slice text: coefficient} of a linear combination of slices of one array symbol."""
    e = sp.expand(e)
    out = {}
    for term in (e.args if e.func == sp.Add else (e,)):
        syms = [s for s in term.free_symbols if s in t.arrays]
        if len(syms) != 1:
            return None
        s = syms[0]
        cf = sp.simplify(term / s)
        if cf.free_symbols:
            return None
        m = re.match(r"^(.*?)((\[[^\]]*\])*)$", re.sub(r"<[^>]*>", "<>", s.name))
        out[m.group(2)] = out.get(m.group(2), 0) + cf
    return out


STENCILS = {
    # output -> {slice: coefficient}; first index chordwise (0 = leading edge), second spanwise
    "coll_pts": {"[:-1,:-1]": sp.Rational(1, 8), "[:-1,1:]": sp.Rational(1, 8), "[1:,:-1]": sp.Rational(3, 8), "[1:,1:]": sp.Rational(3, 8)},
    "force_pts": {"[:-1,:-1]": sp.Rational(3, 8), "[:-1,1:]": sp.Rational(3, 8), "[1:,:-1]": sp.Rational(1, 8), "[1:,1:]": sp.Rational(1, 8)},
    "bound_vecs": {"[:-1,:-1]": sp.Rational(3, 4), "[1:,:-1]": sp.Rational(1, 4), "[:-1,1:]": -sp.Rational(3, 4), "[1:,1:]": -sp.Rational(1, 4)},
}


def v2(chk, repo):
    chk.rule("V2", "chordwise fractions as coefficients of the mesh corners: collocation points = 1/4 front + 3/4 rear edge at mid-span; force points = 3/4 front + 1/4 rear at mid-span; bound vector = quarter-chord point of the lower-index side minus that of the higher-index side; vortex-ring rows = 3/4 row i + 1/4 row i+1 with the last row equal to the trailing edge; VLMGeometry b_pts on the same quarter-chord line", min_decided=8)
    c = repo.cls(A + "collocation_points.py", "CollocationPoints")
    m = component_model(repo, c, domains=(SymX,))
    for r in m.runs.get("compute", []):
        if r.final is None:
            continue
        t = r.domains["SYMX"].table
        seen = set()
        for e in r.events:
            if e.kind != "store" or not isinstance(e.d.get("cell"), tuple) or e.d["cell"][0] != "out":
                continue
            o = e.d["cell"][1]
            v = e.d.get("val")
            d = v.dom.get("SYMX") if v is not None else None
            if o not in STENCILS:
                continue
            passes = "".join(sorted({s.name.split("@")[-1].split("[")[0] for s in (d.free_symbols if d is not None else ())}))
            key = "CollocationPoints.%s (loop pass %s)" % (o, passes or "?")
            if key in seen:
                continue
            seen.add(key)
            wh = "%s:%d" % (c.mod.rel, e.lineno)
            cf = _coeffs(d, t) if d is not None else None
            if cf is None:
                chk.undecided("V2", key, wh, "stencil not extracted", algebraic=True)
            elif cf == STENCILS[o]:
                chk.ok("V2", key, wh, str(cf), algebraic=True)
            else:
                chk.violation("V2", key, wh, "stencil of %s is %s, expected %s" % (o, {k: str(x) for k, x in cf.items()}, {k: str(x) for k, x in STENCILS[o].items()}), algebraic=True)
    # vortex mesh rows
    c = repo.cls(A + "vortex_mesh.py", "VortexMesh")
    m = component_model(repo, c, domains=(SymX,))
    for r in m.runs.get("compute", []):
        if r.final is None:
            continue
        t = r.domains["SYMX"].table
        tag = sig_txt(r.sigma)
        seen = set()
        for e in r.events:
            if e.kind != "store" or not isinstance(e.d.get("cell"), tuple) or e.d["cell"][0] != "out":
                continue
            cs = (e.d.get("csubs") or ("",))[0].replace(" ", "")
            v = e.d.get("val")
            d = v.dom.get("SYMX") if v is not None else None
            key = "VortexMesh rows %s %s" % (cs, tag)
            if key in seen or not cs:
                continue
            seen.add(key)
            wh = "%s:%d" % (c.mod.rel, e.lineno)
            cf = _coeffs(d, t) if d is not None else None
            if cf is None:
                chk.undecided("V2", key, wh, "row expression not extracted", algebraic=True)
                continue
            # a row range lo:hi must be 3/4 [lo:hi] + 1/4 [lo+1:hi+1]; a single row index k must be row k itself
            mm = re.match(r"^(-?\w*(?:[-+]\d+)?)?:(-?\w*(?:[-+]\d+)?)?$", cs)
            if mm:
                vals = sorted(cf.values())
                if vals == [sp.Rational(1, 4), sp.Rational(3, 4)] and len(cf) == 2:
                    k34 = [k for k, x in cf.items() if x == sp.Rational(3, 4)][0]
                    k14 = [k for k, x in cf.items() if x == sp.Rational(1, 4)][0]
                    if _shift_ok(k34, k14, cs):
                        chk.ok("V2", key, wh, "3/4 %s + 1/4 %s" % (k34, k14), algebraic=True)
                    else:
                        chk.violation("V2", key, wh, "rows %s receive 3/4 %s + 1/4 %s: the 1/4 weight must be on the next chordwise row of the same range" % (cs, k34, k14), algebraic=True)
                else:
                    chk.violation("V2", key, wh, "ring rows %s = %s; expected 3/4 of the row + 1/4 of the next row (panel quarter chord)" % (cs, {k: str(x) for k, x in cf.items()}), algebraic=True)
            else:
                if len(cf) == 1 and list(cf.values())[0] == 1 and list(cf)[0].replace(" ", "").endswith("[%s]" % cs):
                    chk.ok("V2", key, wh, "row %s kept" % cs, algebraic=True)
                else:
                    chk.violation("V2", key, wh, "row %s = %s; expected the mesh row itself (trailing edge kept)" % (cs, {k: str(x) for k, x in cf.items()}), algebraic=True)


def _shift_ok(k34, k14, cs):
    """k34 == [lo:hi] and k14 == [lo+1:hi+1] for the stored range cs = lo:hi (text forms used by the code)."""
    def norm(s):
        return s.replace(" ", "")

    lo, hi = cs.split(":")
    a = norm(k34).strip("[]")
    b = norm(k14).strip("[]")
    # only the last bracket group is the row range
    a = norm(k34)[norm(k34).rfind("[") + 1 : -1]
    b = norm(k14)[norm(k14).rfind("[") + 1 : -1]
    if a != "%s:%s" % (lo, hi):
        return False

    def inc(x, is_hi):
        if x == "":
            return "1" if not is_hi else None
        if x == "-1":
            return ""
        try:
            return str(int(x) + 1)
        except ValueError:
            pass
        e = sp.sympify(x.replace("nx", "nx_")) + 1
        return str(e).replace("nx_", "nx").replace(" ", "")

    blo, bhi = b.split(":")
    want_lo, want_hi = inc(lo, False), inc(hi, True)
    def same(x, y):
        if x == y:
            return True
        try:
            return sp.simplify(sp.sympify(x.replace("nx", "nx_")) - sp.sympify(y.replace("nx", "nx_"))) == 0
        except Exception:
            return False
    if want_hi is None:
        return False
    return same(blo or "0", want_lo or "0") and (bhi == want_hi or (bhi and want_hi and same(bhi, want_hi)))


def v4(chk, repo):
    chk.rule("V4", "tangency system of VLMMtxRHSComp: rhs = -(free-stream velocity . normal) per collocation point and mtx = (velocity influence . normal); the unknowns are returned by a linear solve of mtx x = rhs", min_decided=2)
    c = repo.cls(A + "mtx_rhs.py", "VLMMtxRHSComp")
    f = c.methods.get("compute")
    import ast

    found = {}
    for n in ast.walk(f.node):
        if isinstance(n, ast.Assign) and isinstance(n.targets[0], ast.Subscript) and ast.unparse(n.targets[0].value) == "outputs":
            nm = ast.literal_eval(n.targets[0].slice) if isinstance(n.targets[0].slice, ast.Constant) else None
            found[nm] = n
    for nm, spec, sign, first in (("rhs", "ij,ij->i", -1, "freestream_velocities"), ("mtx", "ijk,ik->ij", 1, "mtx_n_n_3")):
        n = found.get(nm)
        key = "VLMMtxRHSComp.%s" % nm
        if n is None:
            chk.undecided("V4", key, c.where, "store not found")
            continue
        v = n.value
        sg = 1
        if isinstance(v, ast.UnaryOp) and isinstance(v.op, ast.USub):
            sg, v = -1, v.operand
        wh = "%s:%d" % (c.mod.rel, n.lineno)
        if not (isinstance(v, ast.Call) and ast.unparse(v.func).endswith("einsum") and len(v.args) == 3 and isinstance(v.args[0], ast.Constant)):
            chk.undecided("V4", key, wh, "einsum idiom not found")
            continue
        got = v.args[0].value.replace(" ", "")
        a1, a2 = ast.unparse(v.args[1]), ast.unparse(v.args[2])
        if got == spec and sg == sign and first in a1 and "normals" in a2:
            chk.ok("V4", key, wh, "%s%s(%s, %s)" % ("-" if sg < 0 else "", got, a1, a2))
        else:
            chk.violation("V4", key, wh, "%s = %seinsum(%s, %s, %s); expected %seinsum(%s, <%s>, <normals>)" % (nm, "-" if sg < 0 else "", got, a1, a2, "-" if sign < 0 else "", spec, first))


def v5(chk, repo):
    chk.rule("V5", "the lattice is built from the current geometry: in the aerodynamic geometry components that take a deformed mesh as input, no value stored to an output (or to the local array the outputs are cut from) is read from the set-up mesh of the surface dictionary, which is used for shapes and orientation tests only", min_decided=4)
    for rel, cn in ((A + "vortex_mesh.py", "VortexMesh"), (A + "collocation_points.py", "CollocationPoints"), (A + "get_vectors.py", "GetVectors"), (A + "geometry.py", "VLMGeometry")):
        try:
            c = repo.cls(rel, cn)
        except Exception:
            chk.undecided("V5", cn, rel, "class not found")
            continue
        m = component_model(repo, c, domains=(SymX,))
        for mn in ("compute",):
            for r in m.runs.get(mn, []):
                if r.final is None:
                    continue
                key = "%s.%s %s" % (cn, mn, sig_txt(r.sigma))
                bad = None
                n_st = 0
                for e in r.events:
                    if e.kind != "store":
                        continue
                    v = e.d.get("val")
                    d = v.dom.get("SYMX") if v is not None else None
                    n_st += 1
                    if d is None:
                        # fall back on the provenance recorded by the interpreter
                        if v is not None and v.kind in ("arr", "cfgval") and v.cfg and v.cx and "['mesh']" in v.cx and ".shape" not in v.cx:
                            bad = (e, v.cx)
                        continue
                    syms = d.free_symbols if not isinstance(d, sp.MatrixBase) else set().union(*[x.free_symbols for x in d])
                    hit = [s_ for s_ in syms if s_.name.startswith("cfg:") and "['mesh']" in s_.name]
                    if hit:
                        bad = (e, str(hit[0]))
                if bad:
                    e, what = bad
                    chk.violation("V5", key, "%s:%d" % (c.mod.rel, e.lineno), "%s is filled from %s, the mesh stored in the surface dictionary at set-up, not from the current def_mesh input: after any geometry change or deflection the lattice no longer follows the geometry" % (e.d.get("target"), what), algebraic=True)
                elif n_st:
                    chk.ok("V5", key, c.where, "%d stores, none from the set-up mesh" % n_st, algebraic=True)


def run(chk, repo, tier):
    from .c06 import u6
    v1(chk, repo)
    v2(chk, repo)
    u6(chk, repo, rule="V3")
    v4(chk, repo)
    v5(chk, repo)
