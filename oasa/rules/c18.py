"""C18 -- viscous and wave drag estimates.

  Z1  switch clause: with the option off the output is the literal 0 and every
      stored partial is 0; with it on the value does not read the switch again
  Z2  wiring: WaveDrag's CL is the surface lift coefficient produced by TotalLift
      (evaluated before it), CD is the plain sum (C17-I1)
  Z3  viscous drag: per-panel friction coefficient positive and decreasing with
      the chord Reynolds number on the stated domain (interval branch-and-bound
      on the extracted expression); form factor increasing with t/c
  Z4  wave drag: zero branch exactly for M <= Mcrit, 20 (M - Mcrit)^4 beyond it
      (value, first, second and third derivative continuous at Mcrit),
      non-decreasing in M and in CL beyond Mcrit
Not decided: independence of the number of panels (needs S_ref = sum of the
strip areas, a relation between inputs).
"""
import ast

import sympy as sp

from ..groups import group_model
from ..model import component_model
from ..symx import SymX, equal
from ..wiring import edges, level_view
from .c17 import _short
from .common import sig_txt

A = "openaerostruct/aerodynamics/"


def _flag(sigma, frag):
    for k, v in sigma.items():
        if frag in k:
            return v
    return None


# --------------------------------------------------------------------------- sign decisions
def decide_sign(expr, dom, want="+", max_boxes=6000, logvars=()):
    """True: expr has the wanted strict sign on the whole box `dom` (interval
    branch-and-bound, sound); (False, point): a point of the box where it does
    not; None: undecided.  dom: {symbol: (lo, hi)}; logvars are split in log scale."""
    from mpmath import iv, mpf

    syms = list(dom)

    def ev(x, env):
        if x.is_Number:
            return iv.mpf(str(sp.N(x, 30))) if not x.is_Rational else iv.mpf(int(x.p)) / iv.mpf(int(x.q))
        if x.is_Symbol:
            return env[x]
        if x is sp.pi:
            return iv.pi
        if x is sp.E:
            return iv.e
        if x.func == sp.Add:
            r = iv.mpf(0)
            for a in x.args:
                r = r + ev(a, env)
            return r
        if x.func == sp.Mul:
            r = iv.mpf(1)
            for a in x.args:
                r = r * ev(a, env)
            return r
        if x.func == sp.Pow:
            b, e_ = x.args
            bv = ev(b, env)
            if e_.is_Integer:
                n_ = int(e_)
                if n_ >= 0:
                    return bv ** n_
                return iv.mpf(1) / (bv ** (-n_))
            ex = ev(e_, env)
            if bv.a <= 0:
                raise ValueError("non-positive base of a real power")
            return iv.exp(ex * iv.log(bv))
        if x.func == sp.log:
            return iv.log(ev(x.args[0], env))
        if x.func == sp.exp:
            return iv.exp(ev(x.args[0], env))
        if x.func == sp.sqrt:
            return iv.sqrt(ev(x.args[0], env))
        if x.func in (sp.sin, sp.cos):
            return (iv.sin if x.func == sp.sin else iv.cos)(ev(x.args[0], env))
        raise ValueError("unsupported: %s" % x.func)

    def lam(*vals):
        return ev(expr, dict(zip(syms, vals)))

    flt = sp.lambdify(syms, expr, modules=["math"])
    sgn = 1 if want == "+" else -1
    # counterexample search on a coarse grid first (cheap)
    import itertools
    import math

    def grid(lo, hi, log):
        if lo == hi:
            return [lo]
        if log:
            return [10 ** (math.log10(lo) + (math.log10(hi) - math.log10(lo)) * i / 6.0) for i in range(7)]
        return [lo + (hi - lo) * i / 6.0 for i in range(7)]

    for pt in itertools.product(*[grid(dom[s][0], dom[s][1], s in logvars) for s in syms]):
        try:
            v = flt(*pt)
        except (ValueError, ZeroDivisionError, OverflowError):
            continue
        if isinstance(v, complex):
            continue
        if sgn * v < -1e-14 * max(1.0, abs(v)):
            return (False, dict(zip([str(s) for s in syms], pt)))
    boxes = [tuple((mpf(dom[s][0]), mpf(dom[s][1])) for s in syms)]
    n = 0
    while boxes:
        n += 1
        if n > max_boxes:
            return None
        b = boxes.pop()
        try:
            r = lam(*[iv.mpf([lo, hi]) for lo, hi in b])
        except Exception:
            return None
        lo, hi = (r.a, r.b) if sgn > 0 else (-r.b, -r.a)
        if lo > 0:
            continue
        if hi <= 0 and all(x[0] != x[1] for x in b) is False:
            return (False, {str(s): float(x[0]) for s, x in zip(syms, b)})
        # split the widest dimension (relative width; log scale for logvars)
        best, bw = None, -1
        for i, (s, (l, h)) in enumerate(zip(syms, b)):
            if l == h:
                continue
            w = float(iv.log(iv.mpf(h)).b - iv.log(iv.mpf(l)).a) if (s in logvars and l > 0) else float(h - l) / max(1e-30, float(dom[s][1] - dom[s][0]))
            if w > bw:
                best, bw = i, w
        if best is None or bw < 1e-9:
            return None
        l, h = b[best]
        mid = (l * h) ** mpf("0.5") if (syms[best] in logvars and l > 0) else (l + h) / 2
        boxes.append(b[:best] + ((l, mid),) + b[best + 1:])
        boxes.append(b[:best] + ((mid, h),) + b[best + 1:])
    return True


# --------------------------------------------------------------------------- Z1
def z1(chk, repo):
    chk.rule("Z1", "switch clause: with with_viscous / with_wave false, compute() stores the literal 0 to the coefficient and compute_partials() leaves every partial of it at 0; with the option true the switch is not consulted again inside the formula", min_decided=4)
    for rel, cn, out, flag in ((A + "viscous_drag.py", "ViscousDrag", "CDv", "with_viscous"), (A + "wave_drag.py", "WaveDrag", "CDw", "with_wave")):
        c = repo.cls(rel, cn)
        m = component_model(repo, c, domains=(SymX,))
        for mn in ("compute", "compute_partials"):
            runs = [r for r in m.runs.get(mn, []) if r.final is not None]
            off = [r for r in runs if _flag(r.sigma, flag) is False]
            on = [r for r in runs if _flag(r.sigma, flag) is True]
            key = "%s.%s switch off" % (cn, mn)
            if not off or not on:
                chk.violation("Z1", key, c.where, "the option %s does not split %s into an on and an off valuation (%d on, %d off): the estimate is not switched" % (flag, mn, len(on), len(off))) if runs else chk.undecided("Z1", key, c.where, "method not analysed")
                continue
            for r in off:
                bad = []
                for oid, ob in r.final.heap.items():
                    if not isinstance(oid, tuple):
                        continue
                    if mn == "compute" and oid == ("out", out):
                        d = ob.dom.get("SYMX")
                        if d is None or not getattr(d, "is_zero", False) or ob.dom.get("SYMX_partial") or ob.dom.get("SYMX_idx"):
                            bad.append("outputs[%r] = %s" % (out, d))
                    if mn == "compute_partials" and oid[0] == "partials" and oid[1] == out:
                        d = ob.dom.get("SYMX")
                        per = ob.dom.get("SYMX_idx") or {}
                        vals = [d] + list(per.values()) if (d is not None or per) else []
                        if ob.stored and (not vals or any(x is None or not getattr(x, "is_zero", False) for x in vals)):
                            bad.append("partials[%r, %r] = %s" % (oid[1], oid[2], d))
                if mn == "compute" and ("out", out) not in r.final.heap:
                    bad.append("outputs[%r] never stored" % out)
                if bad and any(e.kind == "store" and e.d.get("cell") and e.d["cell"][0] == "partials" and "?" in e.d["cell"][1:] for e in r.events):
                    chk.undecided("Z1", key, c.where, "stores to unresolved partials keys: %s" % "; ".join(bad[:2]))
                elif bad:
                    chk.violation("Z1", key, c.where, "with %s false: %s" % (flag, "; ".join(bad[:3])))
                else:
                    chk.ok("Z1", key, c.where, "literal zero")


# --------------------------------------------------------------------------- Z2
def z2(chk, repo):
    chk.rule("Z2", "VLMFunctionals: the CL input of WaveDrag is the CL output of TotalLift (CL1 + CL0), TotalLift is added before WaveDrag, and CDv / CDw / CDi feed TotalDrag", min_decided=3)
    g = [c for c in repo.groups() if c.name == "VLMFunctionals"]
    if not g:
        chk.undecided("Z2", "VLMFunctionals", A + "functionals.py", "group not found")
        return
    g = g[0]
    gm = group_model(repo, g)
    for gr in gm.runs:
        tag = sig_txt(gr.sigma)
        lv = level_view(repo, gr, "self")
        ed = edges(repo, gr, "self", lv)
        cls_of = {s.name: getattr(s.cls, "name", None) for s in gr.subsystems if s.owner == "self"}
        order = [s.name for s in gr.subsystems if s.owner == "self"]
        wd = [n for n, c in cls_of.items() if c == "WaveDrag"]
        tl = [n for n, c in cls_of.items() if c == "TotalLift"]
        td = [n for n, c in cls_of.items() if c == "TotalDrag"]
        if not wd or not tl or not td:
            chk.undecided("Z2", "VLMFunctionals %s" % tag, g.where, "subsystems not found")
            continue
        src = [(p, n) for p, cns, n, kind, e in ed if cns == wd[0] and (lv.rename.get((wd[0], "CL")) == n or n.endswith("-> %s.CL" % wd[0]))]
        key = "VLMFunctionals %s WaveDrag.CL source" % tag
        if [p for p, n in src] == tl:
            chk.ok("Z2", key, g.where, "CL <- %s (TotalLift)" % tl[0])
        elif src:
            chk.violation("Z2", key, g.where, "WaveDrag.CL is fed by %s, not by TotalLift's CL (= CL1 + CL0)" % sorted({"%s (%s)" % (p, cls_of.get(p)) for p, n in src}))
        else:
            lvl = lv.rename.get((wd[0], "CL"))
            prods = [s for s, (si, so) in lv.names.items() if lvl in so]
            if prods and prods != tl:
                chk.violation("Z2", key, g.where, "WaveDrag.CL is promoted as '%s', produced by %s (%s), not by TotalLift" % (lvl, prods, [cls_of.get(p) for p in prods]))
            else:
                chk.violation("Z2", key, g.where, "WaveDrag.CL (level name %s) is not connected to TotalLift's CL" % lvl)
        key = "VLMFunctionals %s order" % tag
        if order.index(tl[0]) < order.index(wd[0]):
            chk.ok("Z2", key, g.where, "TotalLift before WaveDrag")
        else:
            chk.violation("Z2", key, g.where, "TotalLift ('%s') is added after WaveDrag ('%s'): under the default run-once execution WaveDrag reads the CL of the previous evaluation" % (tl[0], wd[0]))
        key = "VLMFunctionals %s drag sum inputs" % tag
        feeds = {n for p, cns, n, kind, e in ed if cns == td[0]}
        if {"CDv", "CDw", "CDi"} <= feeds:
            chk.ok("Z2", key, g.where, "CDi, CDv, CDw reach TotalDrag")
        else:
            chk.violation("Z2", key, g.where, "TotalDrag receives %s; expected CDi, CDv and CDw" % sorted(feeds))


# --------------------------------------------------------------------------- Z3
def _assigned(run, func, names):
    """{name: SymX value of the last executed assignment} in this run"""
    nv = run.domains["SYMX"].nodeval
    out = {}
    for e in run.events:
        if e.kind == "assign" and e.d.get("name") in names and e.func is func:
            v = e.d.get("val")
            d = v.dom.get("SYMX") if v is not None else None
            if d is None and isinstance(e.node, ast.Assign):
                d = nv.get(id(e.node.value))
            out[e.d.get("name")] = d
    return out


def z3(chk, repo, tier="quick"):
    budget = 3000 if tier == "quick" else 40000
    chk.rule("Z3", "ViscousDrag: in every transition branch (k_lam = 0, 0 < k_lam < 1, k_lam >= 1) the per-panel skin-friction coefficient cd extracted from compute() is > 0 and d cd / d Re_c < 0 for all Re_c in [1e3, 1e9], M in [0, 0.95] (mixed branch: transition Reynolds number Re_c k_lam in [1e3, 1e6], k_lam in [1e-3, 0.999]); decided by interval branch-and-bound on the extracted expression (a proof), by a grid point with the wrong sign (a violation), or left undecided; the form factor is positive and increases with t/c; CDv = k sum(2 cd c w FF) / S_ref with k = 2 under symmetry", min_decided=6)
    c = repo.cls(A + "viscous_drag.py", "ViscousDrag")
    m = component_model(repo, c, domains=(SymX,))
    f = c.methods.get("compute")
    for r in m.runs.get("compute", []):
        if r.final is None or _flag(r.sigma, "with_viscous") is not True:
            continue
        t = r.domains["SYMX"].table
        tag = sig_txt(r.sigma)
        vals = _assigned(r, f, {"cd", "Re_c", "FF", "k_FF", "chords"})
        cd, Rec, FF = vals.get("cd"), vals.get("Re_c"), vals.get("FF")
        key = "ViscousDrag cd %s" % tag
        if cd is None or Rec is None:
            chk.undecided("Z3", key, c.where, "cd / Re_c not extracted", algebraic=True)
            continue
        # express cd in the chord Reynolds number: the code forms Re_c = re * chord
        re_s = t.syms.get("re") or t.syms.get("re[0]")
        R = sp.Symbol("Re_c", positive=True)
        ch = sp.simplify(Rec / re_s) if re_s is not None else None
        if ch is None or re_s in ch.free_symbols:
            chk.undecided("Z3", key, c.where, "Re_c is not re x chord: %s" % _short(Rec), algebraic=True)
            continue
        cdR = sp.simplify(cd.subs(re_s, R / ch))
        extra = cdR.free_symbols - {R}
        M = t.syms.get("Mach_number")
        k = [s for s in extra if s.name.startswith("cfg:") and "k_lam" in s.name]
        others = extra - set(k) - ({M} if M is not None else set())
        if any(str(s_).startswith("opq:") for s_ in others):
            chk.undecided("Z3", key, c.where, "the friction coefficient contains a value whose defining expression was not extracted (%s)" % sorted(str(s_) for s_ in others if str(s_).startswith("opq:")), algebraic=True)
            continue
        if others:
            chk.violation("Z3", key, c.where, "the per-panel friction coefficient depends on %s besides Re_c, M and k_lam: %s" % (sorted(str(s) for s in others), _short(cdR)), algebraic=True)
            continue
        # branch of k_lam from the valuation
        klo, khi = 0.0, 1.0
        if _flag(r.sigma, "k_lam'] == 0") is True:
            klo = khi = 0.0
        elif _flag(r.sigma, "k_lam'] < 1.0") is True:
            klo, khi = 1e-3, 0.999
        else:
            klo, khi = 1.0, 1.0  # fully laminar: the formula is used with the given k_lam >= 1; checked at 1
        dom = {R: (1e3, 1e9)}
        if M is not None and M in cdR.free_symbols:
            dom[M] = (0.0, 0.95)
        if k:
            if klo == khi:
                cdR = cdR.subs(k[0], klo)
            else:
                # transition Reynolds number Re_c k >= 1e3: parametrise u = Re_c k in [1e3, Re_c]
                dom[k[0]] = (klo, khi)
        cons = None
        if k and k[0] in cdR.free_symbols:
            # restrict to Re_c * k >= 1e3 by substituting Re_c = u / k with u in [1e3, 1e9]
            u = sp.Symbol("u_tr", positive=True)
            cdU = cdR.subs(R, u / k[0])
            dcdU = sp.diff(cdR, R).subs(R, u / k[0])
            domU = {u: (1e3, 1e6), k[0]: (klo, khi)}  # Re_c = u / k stays within [1e3, 1e9]
            if M is not None and M in cdR.free_symbols:
                domU[M] = (0.0, 0.95)
            exprs = [("cd > 0", cdU, "+", domU, (u,)), ("d cd / d Re_c < 0", dcdU, "-", domU, (u,))]
        else:
            exprs = [("cd > 0", cdR, "+", dom, (R,)), ("d cd / d Re_c < 0", sp.diff(cdR, R), "-", dom, (R,))]
        for label, e, want, d, lv in exprs:
            kk = "%s: %s" % (key, label)
            try:
                res = decide_sign(e, d, want, logvars=lv, max_boxes=budget)
            except Exception as ex:
                res = None
            if res is True:
                chk.ok("Z3", kk, c.where, "proved on %s" % {str(s): v for s, v in d.items()}, algebraic=True)
            elif isinstance(res, tuple):
                chk.violation("Z3", kk, c.where, "%s fails at %s for cd = %s" % (label, {a: float("%.4g" % b) for a, b in res[1].items()}, _short(cdR)), algebraic=True)
            else:
                chk.undecided("Z3", kk, c.where, "interval search exhausted", algebraic=True)
        # form factor
        kf = "ViscousDrag form factor %s" % tag
        toc = t.syms.get("t_over_c")
        if FF is None or toc is None:
            chk.undecided("Z3", kf, c.where, "FF not extracted", algebraic=True)
        else:
            pos = {s: sp.Symbol("p%d" % i, positive=True) for i, s in enumerate(sorted(FF.free_symbols, key=str))}
            FFp = FF.subs(pos)
            d = sp.simplify(sp.diff(FFp, pos[toc]))
            if FFp.is_positive and (d.is_positive or sp.simplify(d).is_positive):
                chk.ok("Z3", kf, c.where, "FF > 0 and d FF / d(t/c) > 0 for positive M, t/c, c_max_t, cos(sweep)", algebraic=True)
            elif d.is_negative or FFp.is_negative:
                chk.violation("Z3", kf, c.where, "form factor %s is not positive and increasing in t/c" % _short(FF), algebraic=True)
            else:
                chk.undecided("Z3", kf, c.where, "sign of %s not decided" % _short(d), algebraic=True)


# --------------------------------------------------------------------------- endpoints
def _atom_value(atom, key, val):
    """truth value of a valuation atom about surface[key] when surface[key] == val (None: unrelated)"""
    import re

    m = re.match(r"^\(?(?:not )?\w+\[['\"]%s['\"]\] *(==|<=|>=|<|>|!=) *([-0-9.e]+)\)?$" % re.escape(key), atom.strip())
    if not m:
        return None
    op, lit = m.group(1), float(m.group(2))
    r = {"==": val == lit, "<": val < lit, ">": val > lit, "<=": val <= lit, ">=": val >= lit, "!=": val != lit}[op]
    return (not r) if atom.strip().lstrip("(").startswith("not ") else r


def endpoint_finite(chk, repo, rule="Z6"):
    chk.rule(rule, "finite at the ends of the documented range of the laminar fraction: for k_lam = 0 and k_lam = 1 the branch of ViscousDrag.compute selected by that value gives a finite friction coefficient (no division by the vanishing transition Reynolds number)", min_decided=2)
    c = repo.cls(A + "viscous_drag.py", "ViscousDrag")
    m = component_model(repo, c, domains=(SymX,))
    f = c.methods.get("compute")
    for kval in (0.0, 1.0):
        hit = False
        for r in m.runs.get("compute", []):
            if r.final is None or _flag(r.sigma, "with_viscous") is not True:
                continue
            ok = True
            for atom, v in r.sigma.items():
                if "k_lam" not in atom:
                    continue
                tv = _atom_value(atom, "k_lam", kval)
                if tv is None or tv != v:
                    ok = False
            if not ok:
                continue
            hit = True
            t = r.domains["SYMX"].table
            cd = _assigned(r, f, {"cd"}).get("cd")
            key = "ViscousDrag cd at k_lam = %g %s" % (kval, sig_txt(r.sigma))
            if cd is None:
                chk.undecided(rule, key, c.where, "cd not extracted", algebraic=True)
                continue
            ks = [s_ for s_ in cd.free_symbols if s_.name.startswith("cfg:") and "k_lam" in s_.name]
            pos = {s_: sp.Symbol("w%d" % i, positive=True) for i, s_ in enumerate(sorted(cd.free_symbols - set(ks), key=str))}
            e = cd.subs(pos)
            try:
                v0 = e.subs({k_: sp.Integer(int(kval)) for k_ in ks}) if ks else e
                v0 = sp.simplify(v0)
            except Exception:
                v0 = sp.nan
            # floating-point evaluation is not algebra: 0 * inf is nan although k / sqrt(k) -> 0.  Every
            # intermediate value that reaches cd (last executed definition of each local it is built from)
            # must be finite at the end point as well.
            inter_bad = None
            last = {}
            for e_ in r.events:
                if e_.kind == "assign" and e_.func is f and isinstance(e_.node, (ast.Assign, ast.AugAssign)):
                    last[e_.d.get("name")] = e_
            seen_n, work = set(), ["cd"]
            while work:
                nm = work.pop()
                if nm in seen_n or nm not in last:
                    continue
                seen_n.add(nm)
                e_ = last[nm]
                vv = e_.d.get("val")
                dv = vv.dom.get("SYMX") if vv is not None else None
                if dv is not None and not isinstance(dv, sp.MatrixBase):
                    ks2 = [s_ for s_ in dv.free_symbols if s_.name.startswith("cfg:") and "k_lam" in s_.name]
                    try:
                        val2 = dv.subs({s_: sp.Symbol("u%d" % i, positive=True) for i, s_ in enumerate(sorted(dv.free_symbols - set(ks2), key=str))}).subs({k_: sp.Integer(int(kval)) for k_ in ks2})
                    except Exception:
                        val2 = sp.nan
                    if val2.has(sp.zoo, sp.nan, sp.oo, -sp.oo):
                        inter_bad = (nm, e_.lineno, dv)
                        break
                rhs = e_.node.value
                for x_ in ast.walk(rhs):
                    if isinstance(x_, ast.Name):
                        work.append(x_.id)
            if v0.has(sp.zoo, sp.nan, sp.oo, -sp.oo):
                chk.violation(rule, key, c.where, "the friction coefficient %s is not finite at the admissible value k_lam = %g (the branch taken for this value divides by the transition Reynolds number Re_c k_lam)" % (_short(cd), kval), algebraic=True)
            elif inter_bad:
                chk.violation(rule, key, "%s:%d" % (c.mod.rel, inter_bad[1]), "at the admissible value k_lam = %g the intermediate '%s' = %s that reaches cd is infinite (it is later multiplied by k_lam = 0: 0 * inf = nan in floating point)" % (kval, inter_bad[0], _short(inter_bad[2])), algebraic=True)
            else:
                chk.ok(rule, key, c.where, "finite: %s" % _short(v0), algebraic=True)
        if not hit:
            chk.undecided(rule, "ViscousDrag cd at k_lam = %g" % kval, c.where, "no valuation selected by this value")


# --------------------------------------------------------------------------- Z4
def z4(chk, repo):
    from ..symx import _Timeout, _with_time_limit

    def guarded():
        return _z4(chk, repo)

    try:
        _with_time_limit(120.0, guarded)
    except _Timeout:
        pass
    if not any(i.rule == "Z4" and i.status in ("ok", "violation") for i in chk.instances):
        chk.undecided("Z4", "WaveDrag", A + "wave_drag.py", "normalisation did not finish within the time limit")


def _z4(chk, repo):
    chk.rule("Z4", "WaveDrag: CDw = k 20 (M - Mcrit)^4 exactly when M > Mcrit and the literal 0 otherwise (so value and first three M-derivatives are continuous at Mcrit), Mcrit = MDD - (0.1/80)^(1/3) with the Korn drag-divergence Mach number MDD = ka/c - (t/c)/c^2 - CL/(10 c^3); beyond Mcrit dCDw/dM > 0 and dCDw/dCL > 0", min_decided=4)
    c = repo.cls(A + "wave_drag.py", "WaveDrag")
    m = component_model(repo, c, domains=(SymX,))
    f = c.methods.get("compute")
    for r in m.runs.get("compute", []):
        if r.final is None or _flag(r.sigma, "with_wave") is not True:
            continue
        t = r.domains["SYMX"].table
        tag = sig_txt(r.sigma)
        vals = _assigned(r, f, {"MDD", "Mcrit", "avg_cos_sweep", "avg_t_over_c", "CL", "M"})
        MDD, Mc, ac, at = vals.get("MDD"), vals.get("Mcrit"), vals.get("avg_cos_sweep"), vals.get("avg_t_over_c")
        M, CL = t.syms.get("Mach_number"), t.syms.get("CL")
        key = "WaveDrag %s" % tag
        if None in (MDD, Mc, ac, at, M, CL):
            chk.undecided("Z4", key, c.where, "Korn quantities not extracted", algebraic=True)
            continue
        ka = [s for s in MDD.free_symbols if s.name.startswith("cfg:") or "ka" in s.name]
        # Korn equation
        CLv = vals.get("CL") if vals.get("CL") is not None else CL
        Ka = sp.Symbol("KA", positive=True)
        # identify ka as the coefficient of 1/avg_cos_sweep
        resid = sp.simplify(MDD + at / ac**2 + CLv / (10 * ac**3))
        kk = key + " Korn equation"
        q = sp.simplify(resid * ac)
        if not (q.free_symbols & (ac.free_symbols | at.free_symbols | {CL})) and q.is_number is not False and (q.is_number or all(s.name.startswith(("cfg:", "opq:", "attr:")) or "ka" in s.name for s in q.free_symbols)):
            chk.ok("Z4", kk, c.where, "MDD = ka/c - (t/c)/c^2 - CL/(10 c^3) with ka = %s" % q, algebraic=True)
        else:
            chk.violation("Z4", kk, c.where, "MDD = %s is not the Korn equation ka/c - (t/c)/c^2 - CL/(10 c^3)" % _short(MDD), algebraic=True)
        kk = key + " Mcrit"
        res = equal(Mc, MDD - sp.Rational(1, 800) ** sp.Rational(1, 3), t)
        if res is True:
            chk.ok("Z4", kk, c.where, "Mcrit = MDD - (0.1/80)^(1/3)", algebraic=True)
        elif res is False:
            chk.violation("Z4", kk, c.where, "Mcrit = %s, expected MDD - (0.1/80)^(1/3)" % _short(Mc), algebraic=True)
        else:
            chk.undecided("Z4", kk, c.where, "", algebraic=True)
        # the switch at Mcrit: test predicate and the two stores
        tests = [e for e in r.events if e.kind == "test" and e.func is f and "Mcrit" in (e.d.get("text") or ast.unparse(e.node.test if hasattr(e.node, "test") else e.node))]
        stores = [e for e in r.events if e.kind == "store" and e.d.get("cell") == ("out", "CDw") and e.d.get("op") == "="]
        kk = key + " branch"
        ifn = [n for n in ast.walk(f.node) if isinstance(n, ast.If) and "Mcrit" in ast.unparse(n.test)]
        if len(ifn) != 1 or len(stores) < 2:
            chk.undecided("Z4", kk, c.where, "switch at Mcrit not found")
            continue
        tst = ast.unparse(ifn[0].test).replace("np.real", "").replace("(", "").replace(")", "").replace(" ", "")
        if tst not in ("M>Mcrit", "Mcrit<M", "M>=Mcrit", "Mcrit<=M"):
            chk.violation("Z4", kk, "%s:%d" % (c.mod.rel, ifn[0].lineno), "the wave-drag switch is '%s', expected M > Mcrit" % ast.unparse(ifn[0].test))
            continue
        on = [e for e in stores if ifn[0].body[0].lineno <= e.lineno <= ifn[0].body[-1].end_lineno]
        off = [e for e in stores if ifn[0].orelse and ifn[0].orelse[0].lineno <= e.lineno <= ifn[0].orelse[-1].end_lineno]
        von = on[0].d.get("val").dom.get("SYMX") if on else None
        voff = off[0].d.get("val").dom.get("SYMX") if off else None
        if von is None or voff is None:
            chk.undecided("Z4", kk, c.where, "branch values not extracted", algebraic=True)
            continue
        # cheap structural route first: von / (M - Mcrit)^4 combines powers of the same base
        ratio = von / (M - Mc) ** 4
        if ratio == 20:
            r1 = True
        elif ratio.is_number or (ratio.func == sp.Pow and ratio.args[0] == (M - Mc)) or (ratio.func == sp.Mul and any(f.func == sp.Pow and f.args[0] == (M - Mc) or f == (M - Mc) for f in ratio.args) and all(f.is_number or (f.func == sp.Pow and f.args[0] == (M - Mc)) or f == (M - Mc) for f in ratio.args)):
            r1 = False  # another number or another power of the same excess Mach number
        else:
            r1 = equal(von, 20 * (M - Mc) ** 4, t)
        if r1 is True and getattr(voff, "is_zero", False):
            chk.ok("Z4", kk, c.where, "20 (M - Mcrit)^4 beyond Mcrit, literal 0 up to it: C3-continuous at Mcrit", algebraic=True)
        elif r1 is False or not getattr(voff, "is_zero", False):
            chk.violation("Z4", kk, c.where, "beyond Mcrit CDw = %s and below %s; expected 20 (M - Mcrit)^4 and 0" % (_short(von), voff), algebraic=True)
        else:
            chk.undecided("Z4", kk, c.where, "", algebraic=True)
        # monotonicity beyond Mcrit: with x = M - Mcrit > 0
        kk = key + " monotone in M and CL"
        x = sp.Symbol("x_excess", positive=True)
        posmap = {s: sp.Symbol("q%d" % i, positive=True) for i, s in enumerate(sorted((Mc.free_symbols | {M}) - {CL}, key=str))}
        McP = Mc.subs(posmap)
        dM = sp.diff(20 * (posmap[M] - McP) ** 4, posmap[M])
        dCL = sp.diff(20 * (posmap[M] - McP) ** 4, CL)
        # write M - Mcrit = x
        dM = sp.simplify(dM.subs(posmap[M], x + McP))
        dCL = sp.simplify(dCL.subs(posmap[M], x + McP))
        def sigpos(e):
            # a sum of strictly positive terms is positive
            from ..symx import SIG

            reps = {}
            for a_ in e.atoms(sp.Function):
                if a_.func == SIG and a_.args[0].is_positive:
                    reps[a_] = sp.Symbol("S%d" % len(reps), positive=True)
            return e.subs(reps)

        dM, dCL = sigpos(dM), sigpos(dCL)
        okM = dM.is_positive
        okC = dCL.is_positive
        if okM and okC:
            chk.ok("Z4", kk, c.where, "dCDw/dM = %s > 0, dCDw/dCL = %s > 0 for M > Mcrit" % (_short(dM), _short(dCL)), algebraic=True)
        elif okM is False or okC is False or dCL.is_negative or dM.is_negative:
            chk.violation("Z4", kk, c.where, "beyond Mcrit dCDw/dM = %s, dCDw/dCL = %s: wave drag does not grow with Mach number and lift" % (_short(dM), _short(dCL)), algebraic=True)
        else:
            # sign not decided symbolically: look for a point where it is negative (CL of either sign)
            bad = None
            for clv in (-0.8, -0.3, 0.3, 0.8):
                try:
                    val = float(dCL.subs(CL, clv).subs({s: 0.7 for s in dCL.free_symbols - {CL}}))
                except Exception:
                    continue
                if val < 0:
                    bad = (clv, val)
            if bad:
                chk.violation("Z4", kk, c.where, "dCDw/dCL = %s is negative at CL = %s (all other quantities 0.7): wave drag decreases with lift there" % (_short(dCL), bad[0]), algebraic=True)
            else:
                chk.undecided("Z4", kk, c.where, "signs of %s / %s not decided" % (_short(dM), _short(dCL)), algebraic=True)


def run(chk, repo, tier):
    from .c17 import i1

    z1(chk, repo)
    z2(chk, repo)
    z3(chk, repo, tier)
    z4(chk, repo)
    i1(chk, repo, only={"TotalDrag"}, rule="Z5", min_decided=1)
    endpoint_finite(chk, repo, "Z6")
