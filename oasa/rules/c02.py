"""C02 -- coupled totals: structural preconditions of fwd/rev agreement.

S1 solve_linear mode rule, S2 factor freshness, S3 adjoint duality of the
matrix-free components, S4 solver capability on cyclic groups.
"""
import ast

from ..groups import all_group_models
from ..load import ClassInfo, unparse
from ..model import component_model
from .common import all_models, norm_name, sig_txt, where

CAPABLE_LINEAR = {"DirectSolver", "LinearBlockGS", "ScipyKrylov", "PETScKrylov", "LinearBlockJac", "LinearUserDefined"}
ITERATIVE_NONLINEAR = {"NonlinearBlockGS", "NewtonSolver", "NonlinearBlockJac", "BroydenSolver"}


def mode_of(sigma):
    """True for the fwd arm, False for rev (OpenMDAO passes only these two)."""
    f = sigma.get("mode == 'fwd'")
    if f is not None:
        return f
    r = sigma.get("mode == 'rev'")
    if r is not None:
        return not r
    return None


def _trans_of(v):
    """transposition flag of a solve value: 0 / 1 / None (unknown)."""
    ex = v.extra
    if not isinstance(ex, tuple):
        return None, None
    if ex[0] == "solve":
        kw = ex[3]
        t = kw.get("trans")
        if t is None and len(ex[2]) > 2:
            t = ex[2][2]
        fac = ex[2][0] if ex[2] else None
        if t is None:
            return 0, fac
        if t.kind == "num" and t.sym is not None and t.sym.is_number:
            return (1 if int(t.sym) != 0 else 0), fac
        if t.kind == "str" and t.tmpl is not None:
            return (0 if t.tmpl == "N" else 1), fac
        return None, fac
    if ex[0] == "mcall" and ex[1] == "solve":
        return "method", ex[2]
    return None, None


def s1_s2(chk, repo, fem_symmetric):
    chk.rule("S1", "ImplicitComponent.solve_linear: the fwd arm reads d_residuals, writes d_outputs with the untransposed factor; the rev arm the reverse with the transposed factor (an untransposed factor in rev is accepted only for a matrix whose symmetry is structurally evidenced, C10-K3)", min_decided=4)
    chk.rule("S2", "the factor used by solve_linear is (re)computed from exactly the matrix input in every method that assigns it", min_decided=2)
    for m in all_models(repo, chk, kinds=("implicit",)):
        c = m.cls
        if "solve_linear" not in m.runs:
            chk.info("S1", c.name, c.where, "no solve_linear (framework solves with the assembled Jacobian)")
            continue
        facs = set()
        for run in m.runs["solve_linear"]:
            if run.final is None:
                continue
            fwd = mode_of(run.sigma)
            if fwd is None:
                continue
            arm = "fwd" if fwd else "rev"
            stores = [e for e in run.events if e.kind == "store" and e.cell and e.cell[0] in ("d_out", "d_res")]
            want_dst, want_src = ("d_out", "d_res") if fwd else ("d_res", "d_out")
            for e in stores:
                key = "%s.solve_linear[%s]: %s" % (c.name, arm, " ".join(e.target.split()))
                w = where(c, e.lineno)
                if e.cell[0] != want_dst:
                    chk.violation("S1", key, w, "the %s arm writes %s; it must write %s" % (arm, e.cell[0], want_dst))
                    continue
                if e.op != "=":
                    chk.violation("S1", key, w, "the %s arm stores the solution with '%s': solve_linear must overwrite the vector (iterative linear solvers call it with a non-zero vector), so the result depends on the linear solver" % (arm, e.op))
                    continue
                srcs = {d.split(":")[0] for d in e.dep if d.startswith(("d_out:", "d_res:", "d_in:"))}
                if want_src not in srcs or (srcs - {want_src}):
                    chk.violation("S1", key, w, "the %s arm computes %s from %s; it must use %s only" % (arm, want_dst, sorted(srcs) or "nothing", want_src))
                    continue
                t, fac = _trans_of(e.val)
                if fac is not None and getattr(fac, "extra", None) is not None:
                    pass
                if t == "method":
                    # splu-object .solve(b[, trans]) : look at the call's arguments
                    tr = _method_trans(e)
                    t = tr
                if t is None:
                    chk.undecided("S1", key, w, "solve call / transposition flag not recognised")
                    continue
                want_t = 0 if fwd else 1
                if t == want_t:
                    chk.ok("S1", key, w, "%s arm uses trans=%d" % (arm, t))
                elif (not fwd) and t == 0:
                    if fem_symmetric.get(c.name):
                        chk.ok("S1", key, w, "rev arm reuses the untransposed factor; matrix symmetry evidenced structurally: " + fem_symmetric[c.name])
                    else:
                        chk.violation("S1", key, w, "the rev arm solves with the untransposed factor and the matrix is not structurally symmetric: reverse-mode totals differ from forward mode")
                else:
                    chk.violation("S1", key, w, "the fwd arm solves with the transposed factor")
            # which attributes hold the factor
            for e in run.events:
                if e.kind == "attr_read" and e.attr not in ("options",):
                    facs.add(e.attr)
        # S2
        for attr in sorted(facs):
            assigned = False
            for mname, runs in m.runs.items():
                if mname in ("__init__", "initialize", "setup", "solve_linear"):
                    continue
                for run in runs:
                    for e in run.events:
                        if e.kind == "attr_store" and e.attr == attr:
                            assigned = True
                            key = "%s.%s: self.%s" % (c.name, mname, attr)
                            ins = {d for d in e.val.dep if d.startswith("in:")}
                            others = {d for d in e.val.dep if not d.startswith("in:")}
                            if isinstance(e.val.extra, tuple) and e.val.extra and e.val.extra[0] == "factor":
                                if len(ins) == 1 and not others:
                                    chk.ok("S2", key, where(c, e.lineno), "factorised from %s" % sorted(ins))
                                else:
                                    chk.violation("S2", key, where(c, e.lineno), "factor depends on %s; it must be the factorisation of the single matrix input" % sorted(e.val.dep))
            if not assigned:
                chk.undecided("S2", "%s: self.%s" % (c.name, attr), c.where, "attribute read by solve_linear is never assigned in an evaluation / linearisation method")


def _method_trans(e):
    node = e.node.value if isinstance(e.node, (ast.Assign, ast.AugAssign)) else None
    if node is None or not isinstance(node, ast.Call):
        return None
    for kw in node.keywords:
        if kw.arg == "trans":
            if isinstance(kw.value, ast.Constant):
                return 0 if kw.value.value in ("N", 0) else 1
            return None
    if len(node.args) > 1 and isinstance(node.args[1], ast.Constant):
        return 0 if node.args[1].value in ("N", 0) else 1
    return 0


# --------------------------------------------------------------------------- S3
def _idx_key(v, text=None):
    if v is None:
        return "()"
    if v.obj is not None:
        return "obj:%s" % (v.obj,)
    if v.cx:
        return v.cx
    return "text:" + " ".join((text or "?").split())


def _alias_text(func, text):
    """text of an index expression with a once-assigned local alias replaced by its definition"""
    import ast as _a

    t = " ".join((text or "").split())
    if not t.isidentifier():
        return t
    defs = [n for n in _a.walk(func.node) if isinstance(n, _a.Assign) and len(n.targets) == 1 and isinstance(n.targets[0], _a.Name) and n.targets[0].id == t]
    if len(defs) == 1:
        return " ".join(unparse(defs[0].value).split())
    return t


def _transfers(run, dst_role, src_role, want_op=None):
    out = []
    for e in run.events:
        if e.kind != "store" or not e.cell or e.cell[0] != dst_role:
            continue
        if any(l.tag == "generic2" for l in e.loops):
            continue
        v = e.val
        src_name, src_idx = None, "()"
        ex = v.extra
        if isinstance(ex, tuple) and ex and ex[0] == "sub" and ex[1].obj is not None and ex[1].obj[0] == src_role:
            src_name = ex[1].obj[1]
            src_idx = _idx_key(ex[3], _alias_text(e.func, unparse(ex[2])))
        elif v.obj is not None and isinstance(v.obj, tuple) and v.obj[0] == src_role:
            src_name = v.obj[1]
        dst_idx = _idx_key(e.sub_vals[0], _alias_text(e.func, e.subs[0])) if len(e.sub_vals) == 1 else ("()" if not e.sub_vals else "(" + ",".join(_idx_key(x, _alias_text(e.func, t)) for x, t in zip(e.sub_vals, e.subs)) + ")")
        guards = tuple(sorted(p[0] for p in e.preds))
        out.append((norm_name(e.cell[1]), dst_idx.replace("(obj:", "obj:").rstrip(")") if False else dst_idx, norm_name(src_name) if src_name else None, src_idx, e.op, e, guards))
    return out


def s3(chk, repo):
    chk.rule("S3", "matrix-free components: compute, the fwd arm and the rev arm of compute_jacvec_product apply the same index map (rev with source and destination swapped), each accumulated with +=", min_decided=4)
    for m in all_models(repo, kinds=("explicit",)):
        c = m.cls
        if "compute_jacvec_product" not in m.runs:
            continue
        comp = None
        for run in m.runs.get("compute", []):
            comp = {(a, ai, b, bi) for a, ai, b, bi, op, e, g in _transfers(run, "out", "in")}
        if not comp:
            chk.undecided("S3", c.name, c.where, "compute transfers not recognised")
            continue
        for run in m.runs["compute_jacvec_product"]:
            fwd = run.sigma.get("mode == 'fwd'")
            rev = run.sigma.get("mode == 'rev'")
            if fwd is None and rev is not None:
                fwd = not rev
            if rev is None and fwd is not None:
                rev = not fwd
            if fwd:
                tr = _transfers(run, "d_out", "d_in")
                got = {(a, ai, b, bi) for a, ai, b, bi, op, e, g in tr}
                key = "%s.compute_jacvec_product[fwd]" % c.name
                bad_op = [e for *_, op, e, g in tr if op != "+="]
                if got == comp and not bad_op:
                    chk.ok("S3", key, c.where, "fwd transfers == compute transfers: %s" % sorted(got))
                elif bad_op:
                    chk.violation("S3", key, where(c, bad_op[0].lineno), "fwd arm stores with '%s'; the product must be accumulated with '+='" % bad_op[0].op)
                else:
                    chk.violation("S3", key, c.where, "fwd arm applies %s but compute applies %s" % (sorted(got, key=str), sorted(comp, key=str)))
                # also: nothing is written to d_inputs in fwd
                wrong = [e for e in run.events if e.kind == "store" and e.cell and e.cell[0] == "d_in"]
                if wrong and not rev:
                    chk.violation("S3", key + ": writes d_inputs", where(c, wrong[0].lineno), "fwd arm writes d_inputs")
            if rev:
                tr = _transfers(run, "d_in", "d_out")
                got = {(b, bi, a, ai) for a, ai, b, bi, op, e, g in tr}
                key = "%s.compute_jacvec_product[rev]" % c.name
                bad_op = [e for *_, op, e, g in tr if op != "+="]
                if got == comp and not bad_op:
                    chk.ok("S3", key, c.where, "rev transfers == transposed compute transfers")
                elif bad_op:
                    chk.violation("S3", key, where(c, bad_op[0].lineno), "rev arm stores with '%s'; the product must be accumulated with '+='" % bad_op[0].op)
                else:
                    chk.violation("S3", key, c.where, "rev arm applies the transpose of %s but compute applies %s" % (sorted(got, key=str), sorted(comp, key=str)))
                wrong = [e for e in run.events if e.kind == "store" and e.cell and e.cell[0] == "d_out"]
                if wrong and not fwd:
                    chk.violation("S3", key + ": writes d_outputs", where(c, wrong[0].lineno), "rev arm writes d_outputs")


# --------------------------------------------------------------------------- S4
def first_comp(path):
    """First path component of a promoted-name template ('.' inside a
    <placeholder> does not separate components)."""
    depth = 0
    for i, ch in enumerate(path):
        if ch == "<":
            depth += 1
        elif ch == ">":
            depth -= 1
        elif ch == "." and depth == 0:
            return path[:i]
    return path


def group_graph(gr, owner):
    """subsystem-level connection graph of the group object ``owner``."""
    subs = [s.name for s in gr.subs_of(owner)]
    edges = set()
    for o, a, b, e in gr.connects:
        if o != owner or a is None or b is None:
            continue
        sa, sb = first_comp(a), first_comp(b)
        edges.add((sa, sb))
    return subs, edges


def has_cycle(nodes, edges):
    adj = {}
    for a, b in edges:
        adj.setdefault(a, set()).add(b)
    color = {}

    def dfs(u, stack):
        color[u] = 1
        for v in adj.get(u, ()):
            if color.get(v) == 1:
                return stack + [u, v]
            if color.get(v) is None:
                r = dfs(v, stack + [u])
                if r:
                    return r
        color[u] = 2
        return None

    for n in list(adj):
        if color.get(n) is None:
            r = dfs(n, [])
            if r:
                return r
    return None


def s4(chk, repo):
    chk.rule("S4", "a group whose subsystem connection graph is cyclic carries a linear solver able to solve the coupled system (not LinearRunOnce / unset); an assembled-Jacobian solver's group contains no matrix-free component", min_decided=10)
    mf = {c.name for c in repo.components() if "compute_jacvec_product" in c.methods or "apply_linear" in c.methods}
    for gm in all_group_models(repo, chk):
        g = gm.cls
        for gr in gm.runs:
            for owner in gr.owners():
                nodes, edges = group_graph(gr, owner)
                cyc = has_cycle(nodes, edges)
                key = "%s[%s]" % (g.name, owner)
                ls = gr.solvers.get((owner, "linear_solver"))
                lname = ls[0] if ls else None
                w = where(g, ls[2].lineno) if ls else g.where
                if cyc:
                    if lname in CAPABLE_LINEAR:
                        chk.ok("S4", key + ": cyclic -> linear solver", w, "cycle %s solved by %s" % ("->".join(cyc), lname))
                    else:
                        chk.violation("S4", key + ": cyclic -> linear solver", w, "subsystems %s are cyclically connected but the group's linear solver is %s under %s: total derivatives through the cycle are wrong" % ("->".join(cyc), lname or "unset (LinearRunOnce)", sig_txt(gr.sigma)))
                else:
                    chk.ok("S4", key + ": acyclic", w, "no cycle among explicit connections; linear solver %s" % (lname or "default"))
                if ls and ls[1].get("assemble_jac") is not None:
                    aj = ls[1]["assemble_jac"]
                    if aj.kind == "bool" and bool(aj.sym):
                        inside = _classes_inside(repo, gr, owner)
                        bad = sorted(inside & mf)
                        if bad:
                            chk.violation("S4", key + ": assemble_jac", w, "assembled-Jacobian solver over matrix-free component(s) %s" % bad)
                        else:
                            chk.ok("S4", key + ": assemble_jac", w, "no matrix-free component among %d classes inside" % len(inside))


def _classes_inside(repo, gr, owner):
    from ..groups import group_model

    out = set()
    work = [s.cls for s in gr.subs_of(owner) if isinstance(s.cls, ClassInfo)]
    seen = set()
    while work:
        c = work.pop()
        if c.key in seen:
            continue
        seen.add(c.key)
        out.add(c.name)
        if c.kind == "group":
            for r in group_model(repo, c).runs:
                for s in r.subsystems:
                    if isinstance(s.cls, ClassInfo):
                        work.append(s.cls)
    return out


def run(chk, repo, tier):
    from .c10 import fem_symmetry_evidence

    ev = fem_symmetry_evidence(repo, None)
    s1_s2(chk, repo, ev)
    s3(chk, repo)
    s4(chk, repo)
    s5(chk, repo)


# --------------------------------------------------------------------------- S5
CS_UNSAFE = {
    "numpy.abs": "np.abs drops the complex perturbation",
    "numpy.absolute": "np.absolute drops the complex perturbation",
    "numpy.fabs": "np.fabs drops the complex perturbation",
    "builtins.abs": "abs() drops the complex perturbation",
    "numpy.linalg.norm": "np.linalg.norm takes absolute values (complex modulus)",
    "numpy.real": "np.real strips the perturbation",
    "builtins.float": "float() strips the perturbation",
    "builtins.int": "int() strips the perturbation",
    "numpy.interp": "np.interp does not propagate a complex abscissa / ordinate",
    "numpy.arctan2": "np.arctan2 is not defined for complex arguments",
    "numpy.maximum": "np.maximum compares complex values by real part only and may drop the perturbation",
    "numpy.minimum": "np.minimum compares complex values by real part only and may drop the perturbation",
    "numpy.hypot": "np.hypot is not defined for complex arguments",
    "numpy.sign": "np.sign of a complex number is not the real sign",
}


def s5(chk, repo):
    """Complex-step safety of the inputs differentiated with method='cs'."""
    import ast as _ast

    chk.rule("S5", "values that depend on an input differentiated by complex step (declare_partials(method='cs')) never pass through an operation that drops or mangles the imaginary part (abs, real, float, norm, interp, arctan2, real-dtype buffers) outside a pure comparison", min_decided=8)
    for m in all_models(repo, kinds=("explicit",)):
        c = m.cls
        cs_in = set()
        for sv in m.setup_views:
            tbl = dict(sv.inputs)
            for d in sv.decls:
                if d.method == "cs":
                    for w in sv.expand(d.wrt, tbl):
                        cs_in.add("in:" + w)
        if not cs_in or "compute" not in m.runs:
            continue
        f = c.methods["compute"]
        # call nodes that only feed comparisons
        in_compare = set()
        fnodes = [f.node] + [cc.node for cc in c.methods.values()]
        for mod_f in repo.modules.values():
            pass
        bad = {}
        n_ok = 0
        for run in m.runs["compute"]:
            if run.final is None:
                continue
            for e in run.events:
                if e.kind == "extcall" and e.name in CS_UNSAFE:
                    tainted = set()
                    for a in list(e.args) + list(e.kwargs.values()):
                        tainted |= {d for d in a.dep if d in cs_in or any(_match(d, x) for x in cs_in)}
                    if not tainted:
                        n_ok += 1
                        continue
                    if e.name in ("numpy.real",) and _only_in_compare(e):
                        continue
                    bad.setdefault((e.func.qual, e.lineno, e.name), (e, tainted))
                if e.kind == "store" and e.obj is not None and not e.cell:
                    # store of a cs-tainted value into a buffer allocated with a real dtype
                    ob = run.final.heap.get(e.obj)
                    al = ob.alloc if ob is not None else None
                    if isinstance(al, tuple) and al and al[0] in ("zeros", "ones", "empty", "full") and (len(al) < 2 or al[1] is None):
                        tainted = {d for d in e.dep if d in cs_in}
                        if tainted and not _complex_guarded(e):
                            bad.setdefault((e.func.qual, e.lineno, "real-dtype buffer"), (e, tainted))
        key0 = "%s.compute" % c.name
        if bad:
            for (fq, ln, nm), (e, tainted) in bad.items():
                why = CS_UNSAFE.get(nm, "the buffer was allocated without a complex-capable dtype, assignment discards the imaginary part")
                chk.violation("S5", "%s: %s on %s" % (key0, nm, sorted(t[3:] for t in tainted)), "%s:%d" % (e.func.mod.rel, ln), "partials w.r.t. %s are declared method='cs' but the value passes through %s (%s): the complex-step derivative silently loses this dependence" % (sorted(t[3:] for t in tainted), nm, why))
        else:
            chk.ok("S5", key0, c.where, "cs-differentiated inputs %s reach no perturbation-dropping operation" % sorted(x[3:] for x in cs_in)[:5])


def _match(d, x):
    return d.replace("[0]", "[i]") == x.replace("[0]", "[i]")


def _only_in_compare(e):
    return False


def _complex_guarded(e):
    return False
