"""C03 -- outputs and derivatives depend only on the current point.

R1 accumulate-after-reset typestate, R2 cache discipline, R3 no state outside
the instance.
"""
import ast

import sympy as sp

from ..absint import sym_nonneg
from ..load import unparse
from ..model import EVAL_METHODS, LIN_METHODS, SETUP_METHODS
from .common import NEVER_INSTANTIATED, POSTPROCESSING, all_models, norm_name, sig_txt, where

PERSISTENT_ROLES = ("out", "res", "partials")
ACCUM_EXEMPT_ROLES = ("d_in", "d_out", "d_res")  # OpenMDAO requires accumulation in jacvec products


def cell_txt(cell):
    if cell is None:
        return "?"
    if cell[0] == "partials":
        return "partials[%s, %s]" % (cell[1], cell[2])
    if cell[0] == "self":
        return "self.%s" % cell[1]
    return "%s[%s]" % ({"out": "outputs", "res": "residuals", "in": "inputs"}.get(cell[0], cell[0]), cell[1])


def preds_subset(p1, p2):
    s2 = {(a, b) for a, b, _ in p2}
    return all((a, b) in s2 for a, b, _ in p1)


def loops_cover(e1, e2):
    """May the plain store e1 be relied on by the later accumulation e2?"""
    l1, l2 = e1.loops, e2.loops
    # common prefix must be identical passes
    n = 0
    while n < len(l1) and n < len(l2) and l1[n].node is l2[n].node:
        if l1[n].tag != l2[n].tag:
            # same loop, different pass: only 'first' -> later generic pass is an earlier iteration
            if l1[n].tag == "first" and l2[n].generic and len(l1) == n + 1:
                return True
            return False
        n += 1
    rest1 = l1[n:]
    # e1 inside loops that e2 is not in: they must be loops that run at least once
    # per element of a configuration list (never zero iterations)
    for lc in rest1:
        if str(lc.tag).startswith("lit"):
            continue  # an unrolled literal loop: this iteration is executed, like straight-line code
        if lc.kind != "cfglist":
            return False
    return True


def axis_interval(ax, dim):
    """(lo, hi) sympy interval of an axis descriptor, or None."""
    if ax[0] == "all":
        return (sp.Integer(0), dim) if dim is not None else ("all", None, None)
    if ax[0] == "index":
        i = ax[1]
        if i.is_number and i < 0:
            if dim is None:
                return ("end", i, None)
            i = dim + i
        return (i, i + 1)
    if ax[0] == "range":
        lo, hi = ax[1], ax[2]
        if lo == "?" or hi == "?":
            return None
        lo = sp.Integer(0) if lo is None else sp.sympify(lo)
        if lo.is_number and lo < 0:
            if dim is None:
                return None
            lo = dim + lo
        if hi is None:
            if dim is None:
                return ("from", lo, None)
            hi = dim
        else:
            hi = sp.sympify(hi)
            if hi.is_number and hi < 0:
                if dim is None:
                    return ("to", lo, hi)
                hi = dim + hi
        return (lo, hi)
    return None


def region_covered(target, fresh_regions, shape):
    """'covered' | 'uncovered' | 'unknown'.  target / fresh regions are 'whole'
    or tuples of axis descriptors relative to the same storage cell."""
    if any(r == "whole" for r in fresh_regions):
        return "covered"
    if not fresh_regions:
        return "uncovered"
    if target is None or target == "whole":
        # whole-key accumulation over partial plain stores: decide along one axis
        if target is None:
            return "unknown"
        target = None
    regs = [r for r in fresh_regions if r is not None]
    if not regs:
        return "unknown"
    # identical region text covers
    if target is not None and any(r == target for r in regs):
        return "covered"
    nax = max(len(r) for r in regs)
    if target is not None:
        nax = max(nax, len(target))

    def pad(r):
        return tuple(r) + (("all",),) * (nax - len(r))

    regs = [pad(r) for r in regs]
    tgt = pad(target) if target is not None else (("all",),) * nax
    for r in regs:
        if all(_axis_contains(a, b) for a, b in zip(r, tgt)):
            return "covered"
    if any(ax[0] in ("unknown", "newaxis") for r in regs + [tgt] for ax in r):
        return "unknown"
    dims = list(shape) + [None] * nax if shape is not None else [None] * nax
    return _cover_rec(tgt, regs, dims, 0)


def _axis_contains(a, b):
    """axis descriptor a contains b (no knowledge of the axis length needed)."""
    if a[0] == "all":
        return b[0] in ("all", "index", "range")
    if a == b:
        return True
    if a[0] == "range" and b[0] in ("range", "index"):
        alo, ahi = a[1], a[2]
        if b[0] == "index":
            blo, bhi = b[1], b[1] + 1
            if b[1].is_number and b[1] < 0:
                return False
        else:
            blo, bhi = b[1], b[2]
        if "?" in (alo, ahi, blo, bhi):
            return False
        alo = sp.Integer(0) if alo is None else sp.sympify(alo)
        blo = sp.Integer(0) if blo is None else sp.sympify(blo)
        for x in (alo, blo):
            if x.is_number and x < 0:
                return False
        if not sym_nonneg(blo - alo):
            return False
        if ahi is None:
            return True
        if bhi is None:
            return False
        ahi, bhi = sp.sympify(ahi), sp.sympify(bhi)
        if (ahi.is_number and ahi < 0) or (bhi.is_number and bhi < 0):
            return ahi == bhi
        return sym_nonneg(ahi - bhi)
    return False


def _cover_rec(tgt, regs, dims, k):
    if k == len(tgt):
        return "covered" if regs else "uncovered"
    dim = dims[k] if k < len(dims) else None
    ti = axis_interval(tgt[k], dim)
    ris = [(axis_interval(r[k], dim), r) for r in regs]
    if ti is None or any(x is None for x, _ in ris):
        return "unknown"
    # symbolic "all" without dim: only decidable when every region is also 'all' or complementary index sets
    if len(ti) != 2 or any(len(x) != 2 for x, _ in ris):
        if all(x == ti for x, _ in ris):
            return _cover_rec(tgt, regs, dims, k + 1)
        # enumerate small constant indices against an unknown extent: undecidable
        return "unknown"
    lo, hi = ti
    pts = {lo, hi}
    for (a, b), _ in ris:
        pts.add(a)
        pts.add(b)
    pts = list(pts)
    # order the breakpoints
    order = []
    for p in pts:
        placed = False
        for i, q in enumerate(order):
            d = sp.expand(q - p)
            if d == 0:
                placed = True
                break
            if sym_nonneg(d):
                order.insert(i, p)
                placed = True
                break
            if not sym_nonneg(-d):
                return "unknown"
        if not placed:
            order.append(p)
    res = "covered"
    for a, b in zip(order, order[1:]):
        if not (sym_nonneg(a - lo) and sym_nonneg(hi - b)):
            continue
        # strictly inside target; is the segment non-empty for all sizes? if it may be empty skip when covered
        cands = [r for (x, y), r in ris if sym_nonneg(a - x) and sym_nonneg(y - b)]
        if not cands:
            # the segment is uncovered only if it is provably non-empty
            if sym_nonneg(b - a - 1):
                return "uncovered"
            res = "unknown"
            continue
        sub = _cover_rec(tgt, cands, dims, k + 1)
        if sub == "uncovered":
            if sym_nonneg(b - a - 1):
                return "uncovered"
            res = "unknown"
        elif sub == "unknown":
            res = "unknown"
    return res


def covered_under(tgt, cands, shape, ctx, depth):
    """Coverage with case splits on the input-valued predicates that guard the
    candidate plain stores: a store in both arms of a test covers the join."""
    usable = [r for e1, r in cands if all((a, b) in ctx for a, b, _ in e1.preds)]
    res = region_covered(tgt, usable, shape)
    if res == "covered" or depth >= 4:
        return res
    extra = []
    for e1, _ in cands:
        for a, b, _l in e1.preds:
            if (a, True) not in ctx and (a, False) not in ctx and a not in extra:
                extra.append(a)
    for p in extra:
        rt = covered_under(tgt, cands, shape, ctx | {(p, True)}, depth + 1)
        if rt != "covered":
            continue
        rf = covered_under(tgt, cands, shape, ctx | {(p, False)}, depth + 1)
        if rf == "covered":
            return "covered"
    return res


KILL_MULT = {"*="}


def is_zero_val(v):
    return v is not None and v.kind == "num" and v.sym is not None and v.sym.is_number and bool(v.sym.is_zero)


def r1(chk, repo, models):
    chk.rule("R6", "no linearisation method (compute_partials, linearize, solve_linear, compute_jacvec_product) stores into an alias of the component's inputs: the framework does not re-transfer inputs between linearisations", min_decided=30)
    chk.rule(
        "R1",
        "an augmented / read-modify-write store to persistent storage (outputs, residuals, partials, self.*) is preceded in the same call by a plain store covering the region (typestate STALE->FRESH per storage cell, option valuations enumerated, first surface-loop iteration peeled)",
        min_decided=60,
    )
    for m in models:
        c = m.cls
        if c.name in POSTPROCESSING or c.name in NEVER_INSTANTIATED:
            continue
        for mname, runs in m.runs.items():
            if mname in SETUP_METHODS:
                continue
            for run in runs:
                if run.final is None:
                    continue
                _r1_run(chk, m, mname, run)
            if mname in LIN_METHODS and not any(i.rule == "R6" and i.key.startswith("%s.%s:" % (c.name, mname)) for i in chk.instances):
                chk.ok("R6", "%s.%s" % (c.name, mname), c.where, "no store reaches the inputs")


def attr_objects(m, run):
    """obj id -> attribute name for arrays bound to self attributes."""
    out = {}
    for pa in m.phase_attrs.values():
        for k, v in pa.items():
            if v is not None and v.obj is not None:
                out[v.obj] = k
    for e in run.events:
        if e.kind == "attr_store" and e.val is not None and e.val.obj is not None:
            out[e.val.obj] = e.attr
    return out


def _r1_run(chk, m, mname, run):
    c = m.cls
    aobjs = attr_objects(m, run)
    fresh = {}  # cell -> list of (event, region)
    # attributes (re)bound in this very call are fresh objects
    bound_now = {}
    for e in sorted(run.events, key=lambda e: e.seq):
        if e.kind == "attr_store":
            if e.val is not None and e.val.obj is not None and e.op == "=":
                bound_now[e.val.obj] = e
            continue
        if e.kind != "store":
            continue
        cell = e.cell
        if cell is None and e.obj in aobjs:
            # an array allocated in this very call (and only later bound to self.<attr>) is fresh
            if isinstance(e.obj, tuple) and e.obj and e.obj[0] == "site" and len(e.obj) > 1 and e.obj[1] == "%s.%s" % (c.name, mname):
                continue
            cell = ("self", aobjs[e.obj])
        if cell is None:
            continue
        role = cell[0]
        if role in ACCUM_EXEMPT_ROLES:
            continue
        if any(x_ == "?" for x_ in cell[1:] if isinstance(x_, str)):
            # the storage key was not resolved (built dynamically in a way outside the fragment): never an alarm
            if e.op != "=":
                chk.undecided("R1", "%s.%s: %s %s (key not resolved)" % (c.name, mname, cell_txt(cell), e.op), where(c, e.lineno), "storage key not resolved")
            continue
        if role == "in":
            # is the alias definite?  x = inputs[k][0] is a numpy scalar (a copy) when the input is
            # one-dimensional, which the declaration does not always tell: then only information
            definite = True
            bv = e.d.get("base")
            chain = bv
            while chain is not None and isinstance(chain.extra, tuple) and chain.extra and chain.extra[0] == "sub":
                sl = chain.extra[2]
                elts = sl.elts if isinstance(sl, ast.Tuple) else [sl]
                if not any(isinstance(x_, ast.Slice) or (isinstance(x_, ast.Constant) and x_.value is Ellipsis) for x_ in elts) and (chain.extra[1].shape is None):
                    definite = False
                chain = chain.extra[1]
            key_in = "%s.%s: %s on %s" % (c.name, mname, e.op, cell_txt(cell))
            if mname in LIN_METHODS and definite:
                chk.violation("R6", key_in, where(c, e.lineno), "%s writes into its own input vector (%s %s through an alias of inputs): inputs are not re-transferred between linearisations, so the next linearisation at the same point starts from modified inputs" % (mname, unparse(e.node)[:70] if hasattr(e, "node") else "", e.op))
            else:
                chk.info("R1-in", key_in, where(c, e.lineno), "in-place operation on an alias of an input in an evaluation method (the framework re-transfers connected inputs before each evaluation)%s" % ("" if definite else "; alias not definite (integer index on an input of undeclared rank)"))
            continue
        if role == "cfg":
            continue
        if role not in PERSISTENT_ROLES and role != "self":
            continue
        key_cell = tuple(cell)
        shape = None
        if e.view == "whole":
            shape = e.base.shape if e.base is not None and e.base.kind != "vec" else m.shape_of(cell, run.sigma)
        plain = e.op == "=" or (e.op in KILL_MULT and is_zero_val(e.val))
        region = e.region if e.view == "whole" else ("whole" if (e.region == "whole" and e.view == "whole") else None)
        if e.view in ("reshape", "part") and e.region == "whole" and e.view == "reshape":
            # x = K.reshape(...); x[:] = v  -- whole-key store through a reshaped view
            region = "whole"
        if plain:
            fresh.setdefault(key_cell, []).append((e, region))
            continue
        # augmented store / in-place
        key = "%s.%s: %s %s %s" % (c.name, mname, cell_txt(tuple(norm_name(x) if isinstance(x, str) else x for x in cell)), e.op, "[" + ",".join(e.subs) + "]" if e.subs else "")
        if role == "self" and e.obj in bound_now:
            cands = [(bound_now[e.obj], "whole")]
        else:
            cands = []
        allc = [(e1, reg) for e1, reg in fresh.get(key_cell, []) if loops_cover(e1, e)]
        for e1, reg in allc:
            if preds_subset(e1.preds, e.preds):
                cands.append((e1, reg))
        tgt = region
        res = covered_under(tgt, allc + cands, shape, frozenset((a, b) for a, b, _ in e.preds), 0)
        w = where(c, e.lineno)
        if res == "covered":
            chk.ok("R1", key, w, "covered by plain store(s) at line(s) %s" % sorted({x.lineno for x, _ in cands}))
        elif res == "uncovered":
            if not cands:
                chk.violation("R1", key, w, "%s accumulates into %s (%s) under %s but no plain store to that key precedes it in the call: the value depends on previous calls" % (mname, cell_txt(cell), e.op, sig_txt(run.sigma)))
            else:
                chk.violation("R1", key, w, "%s accumulates into %s (%s) under %s; the plain stores at lines %s provably leave part of the region stale" % (mname, cell_txt(cell), e.op, sig_txt(run.sigma), sorted({x.lineno for x, _ in cands})))
        else:
            chk.undecided("R1", key, w, "coverage of region %s by %s not decided" % (tgt, [r for _, r in cands]))


# --------------------------------------------------------------------------- R3
MUTATING_METHODS = {"append", "extend", "insert", "pop", "remove", "clear", "update", "setdefault", "popitem", "sort", "reverse", "fill", "resize", "put", "itemset", "add", "discard"}


def r3(chk, repo):
    """No function or method writes state outside the instance: module globals,
    class attributes, function attributes, mutable default arguments."""
    chk.rule("R3", "no method or helper writes a module global, class attribute, function attribute or mutable default argument (store, augmented store, in-place method, out=)", min_decided=300)
    for mod in repo.modules.values():
        gnames = set(mod.global_assigns)
        for fi in _all_funcs(mod):
            f = fi.node
            key0 = "%s::%s" % (mod.rel.split("/", 1)[1], fi.qual)
            bad = []
            declared_global = set()
            for n in ast.walk(f):
                if isinstance(n, (ast.Global, ast.Nonlocal)):
                    declared_global |= set(n.names)
            local = _local_names(f)
            mutable_defaults = {}
            args = f.args
            pos = args.posonlyargs + args.args
            for a, d in list(zip(pos[len(pos) - len(args.defaults):], args.defaults)) + [(a, d) for a, d in zip(args.kwonlyargs, args.kw_defaults) if d is not None]:
                if isinstance(d, (ast.List, ast.Dict, ast.Set)) or (isinstance(d, ast.Call) and unparse(d.func) in ("dict", "list", "set", "np.zeros", "np.array", "np.ones")):
                    mutable_defaults[a.arg] = d
            cls_names = {fi.cls.name} if fi.cls else set()
            for n in ast.walk(f):
                tgts = []
                if isinstance(n, ast.Assign):
                    tgts = [(t, "=") for t in n.targets]
                elif isinstance(n, ast.AugAssign):
                    tgts = [(n.target, "aug")]
                elif isinstance(n, ast.AnnAssign) and n.value is not None:
                    tgts = [(n.target, "=")]
                for t, op in tgts:
                    for tt in (t.elts if isinstance(t, (ast.Tuple, ast.List)) else [t]):
                        root, depth = _root(tt)
                        if isinstance(tt, ast.Name):
                            if tt.id in declared_global:
                                bad.append((n.lineno, "assigns module global '%s' (global statement)" % tt.id))
                            continue
                        if isinstance(root, ast.Name):
                            nm = root.id
                            if nm in local and nm not in declared_global:
                                if nm in mutable_defaults and _never_rebound(f, nm):
                                    bad.append((n.lineno, "mutates mutable default argument '%s'" % nm))
                                continue
                            if nm in gnames or nm in declared_global:
                                bad.append((n.lineno, "writes into module-level object '%s' (%s)" % (nm, unparse(tt)[:60])))
                            elif nm in cls_names or (nm in mod.classes):
                                bad.append((n.lineno, "writes class attribute '%s'" % unparse(tt)[:60]))
                            elif nm in mod.functions:
                                bad.append((n.lineno, "writes function attribute '%s'" % unparse(tt)[:60]))
                            elif nm in mod.imports and nm not in ("self",):
                                r = repo.resolve_name(mod, nm)
                                if r and r[0] in ("const", "module", "class", "func"):
                                    bad.append((n.lineno, "writes into imported module-level object '%s'" % unparse(tt)[:60]))
                        elif isinstance(root, ast.Attribute) and isinstance(root.value, ast.Name) and root.value.id == "self" and False:
                            pass
                        # type(self).x = ... / self.__class__.x = ...
                        s = unparse(tt)
                        if s.startswith("type(self).") or s.startswith("self.__class__.") or ".__class__." in s:
                            bad.append((n.lineno, "writes class attribute via '%s'" % s[:60]))
                if isinstance(n, ast.Call) and isinstance(n.func, ast.Attribute) and n.func.attr in MUTATING_METHODS:
                    root, depth = _root(n.func.value)
                    if isinstance(root, ast.Name):
                        nm = root.id
                        if nm in local and nm not in declared_global:
                            if nm in mutable_defaults and _never_rebound(f, nm):
                                bad.append((n.lineno, "mutates mutable default argument '%s' via .%s()" % (nm, n.func.attr)))
                        elif nm in gnames:
                            bad.append((n.lineno, "mutates module-level object '%s' via .%s()" % (nm, n.func.attr)))
                        elif nm in mod.imports:
                            r = repo.resolve_name(mod, nm)
                            if r and r[0] == "const":
                                bad.append((n.lineno, "mutates imported module-level object '%s' via .%s()" % (nm, n.func.attr)))
                    s = unparse(n.func.value)
                    if s.startswith("type(self).") or s.startswith("self.__class__."):
                        bad.append((n.lineno, "mutates class attribute via '%s'" % s[:60]))
                    # self.<class attr>.append(...) where attr is only defined at class level
                    if fi.cls is not None and isinstance(n.func.value, ast.Attribute) and isinstance(n.func.value.value, ast.Name) and n.func.value.value.id == "self":
                        at = n.func.value.attr
                        if at in fi.cls.class_attrs and not _assigned_on_self(fi.cls, at):
                            bad.append((n.lineno, "mutates class-level attribute '%s' through self via .%s()" % (at, n.func.attr)))
                if isinstance(n, ast.Call):
                    for kw in n.keywords:
                        if kw.arg == "out":
                            root, _ = _root(kw.value)
                            if isinstance(root, ast.Name) and root.id in gnames and root.id not in local:
                                bad.append((n.lineno, "out= writes into module-level object '%s'" % root.id))
                # self.<class attr>[...] = v where attr only defined at class level
                for t, op in tgts:
                    if isinstance(t, ast.Subscript):
                        root, _ = _root(t)
                        if fi.cls is not None and isinstance(root, ast.Attribute) and isinstance(root.value, ast.Name) and root.value.id == "self":
                            at = root.attr
                            if at in fi.cls.class_attrs and not _assigned_on_self(fi.cls, at):
                                bad.append((n.lineno, "writes into class-level attribute '%s' through self" % at))
            if bad:
                for ln, why in bad:
                    chk.violation("R3", "%s: %s" % (key0, why), "%s:%d" % (mod.rel, ln), why + " -- state shared between component instances / Problems")
            else:
                chk.ok("R3", key0, fi.where, "no write outside the instance")


def _all_funcs(mod):
    out = list(mod.functions.values())
    for c in mod.classes.values():
        out.extend(c.methods.values())
    return out


def _root(t):
    depth = 0
    while isinstance(t, (ast.Subscript, ast.Attribute)):
        if isinstance(t, ast.Attribute) and isinstance(t.value, ast.Name) and t.value.id == "self":
            return t, depth
        t = t.value
        depth += 1
    return t, depth


def _local_names(f):
    names = {a.arg for a in f.args.posonlyargs + f.args.args + f.args.kwonlyargs}
    if f.args.vararg:
        names.add(f.args.vararg.arg)
    if f.args.kwarg:
        names.add(f.args.kwarg.arg)
    for n in ast.walk(f):
        if isinstance(n, ast.Name) and isinstance(n.ctx, ast.Store):
            names.add(n.id)
        elif isinstance(n, (ast.FunctionDef, ast.ClassDef)) and n is not f:
            names.add(n.name)
        elif isinstance(n, (ast.Import, ast.ImportFrom)):
            for a in n.names:
                names.add((a.asname or a.name).split(".")[0])
        elif isinstance(n, ast.ExceptHandler) and n.name:
            names.add(n.name)
    return names


def _never_rebound(f, nm):
    for n in ast.walk(f):
        if isinstance(n, ast.Name) and n.id == nm and isinstance(n.ctx, ast.Store):
            return False
    return True


def _assigned_on_self(cls, attr):
    for m in cls.methods.values():
        for n in ast.walk(m.node):
            if isinstance(n, (ast.Assign, ast.AnnAssign)):
                tg = n.targets if isinstance(n, ast.Assign) else [n.target]
                for t in tg:
                    if isinstance(t, ast.Attribute) and isinstance(t.value, ast.Name) and t.value.id == "self" and t.attr == attr:
                        return True
    return False


def run(chk, repo, tier):
    models = all_models(repo, chk)
    r1(chk, repo, models)
    r2(chk, repo, models)
    r3(chk, repo)
    r4(chk, repo)
    r5(chk, repo, models)
    r7(chk, repo, models)
    r8(chk, repo, models)


# --------------------------------------------------------------------------- R7
def r7(chk, repo, models, rule="R7", only=None, min_decided=100):
    """Every output of an explicit component is completely written by compute()."""
    chk.rule(rule, "compute() writes every declared output completely (plain stores whose regions cover the whole array, under every option valuation): an entry that compute never assigns keeps its initial value or the value a solver / user / previous run left there", min_decided=min_decided)
    for m in models:
        c = m.cls
        if c.name in POSTPROCESSING or c.name in NEVER_INSTANTIATED or c.kind != "explicit":
            continue
        if only is not None and c.name not in only:
            continue
        for run in m.runs.get("compute", []):
            if run.final is None:
                continue
            svs = m.setup_for(run.sigma)
            if not svs:
                continue
            outs = set()
            for sv in svs:
                outs |= set(sv.outputs)
            stores = {}
            for e in run.events:
                if e.kind == "store" and e.d.get("cell") and e.d["cell"][0] == "out":
                    stores.setdefault(e.d["cell"][1], []).append(e)
            for o in sorted(outs):
                on = o
                evs = stores.get(on) or stores.get(on.replace("[0]", "[i]")) or [e for k_, lst in stores.items() for e in lst if norm_name(k_) == norm_name(on)]
                key = "%s.%s %s" % (c.name, norm_name(on), sig_txt(run.sigma))
                if not evs:
                    # not stored in this valuation at all: is it stored in some valuation?  (loop templates may differ)
                    chk.info(rule, key, c.where, "declared output never stored by compute under this valuation: it keeps its declared value (a constant, not a history dependence)")
                    continue
                plain = []
                masked = []
                for e in evs:
                    # a store through a mask computed from the data (x[abs(x) < c] = 0) guarantees no entry
                    svs_ = e.d.get("sub_vals") or ()
                    if svs_ and any(v_.kind in ("bool", "arr") and any(str(d_).startswith(("in:", "out:")) for d_ in v_.dep) and (v_.kind == "bool" or any(op_ in (e.d.get("subs") or ("",))[0] for op_ in ("<", ">", "==", "!="))) for v_ in svs_):
                        masked.append(e)
                        continue
                    if e.d.get("op") == "=" or (e.d.get("op") in KILL_MULT and is_zero_val(e.d.get("val"))):
                        region = e.d.get("region") if e.d.get("view") == "whole" else ("whole" if (e.d.get("region") == "whole" and e.d.get("view") in ("whole", "reshape")) else None)
                        if e.d.get("view") not in ("whole", "reshape") and region is None:
                            region = None
                        plain.append((e, region))
                if not plain and masked:
                    chk.violation(rule, key, where(c, masked[0].lineno), "outputs[%r] is assigned only through a mask computed from the data (%s): the entries outside the mask keep the value of the previous evaluation" % (on, ",".join(masked[0].d.get("subs") or ())))
                    continue
                if not plain:
                    chk.violation(rule, key, where(c, evs[0].lineno), "compute only accumulates into outputs[%r] (%s) and never assigns it" % (on, evs[0].d.get("op")))
                    continue
                shape = m.shape_of(("out", evs[0].d["cell"][1]), run.sigma)
                if any(r_ is None for _, r_ in plain):
                    # a store through a derived view: region not expressed in the coordinates of the output
                    res = "unknown" if not any(r_ == "whole" for _, r_ in plain) else "covered"
                else:
                    res = covered_under("whole", plain, shape, frozenset(), 0)
                if res == "covered":
                    chk.ok(rule, key, c.where, "fully written")
                elif res == "uncovered":
                    chk.violation(rule, key, where(c, plain[0][0].lineno), "the plain stores to outputs[%r] (%s) provably leave part of the array unwritten: those entries keep whatever was there before (initial value, a solver's guess, the previous evaluation)" % (on, sorted({",".join(e.d.get("subs") or ()) for e, _ in plain})))
                else:
                    chk.undecided(rule, key, c.where, "coverage of the whole array by %s not decided" % sorted({",".join(e.d.get("subs") or ()) for e, _ in plain})[:4])


# --------------------------------------------------------------------------- R8
def r8(chk, repo, models, rule="R8"):
    """A Jacobian block written under a condition on the inputs is written on the other branch too."""
    chk.rule(rule, "in compute_partials / linearize, a partials block that is assigned under a condition on the input values is assigned (or reset) on every other input-dependent path of the same call as well: partials storage persists between linearisations, so a block skipped on one branch keeps the Jacobian of the previously linearised point", min_decided=10)
    for m in models:
        c = m.cls
        if c.name in POSTPROCESSING or c.name in NEVER_INSTANTIATED:
            continue
        for mname in ("compute_partials", "linearize"):
            for run in m.runs.get(mname, []):
                if run.final is None:
                    continue
                stores = {}
                for e in run.events:
                    cell = e.d.get("cell") if e.kind == "store" else None
                    if cell and cell[0] == "partials" and len(cell) == 3 and "?" not in cell[1:]:
                        stores.setdefault(tuple(cell[1:]), []).append(e)
                for (of, wrt), evs in sorted(stores.items(), key=lambda kv: str(kv[0])):
                    key = "%s.%s d(%s)/d(%s) %s" % (c.name, mname, norm_name(of), norm_name(wrt), sig_txt(run.sigma))
                    plain = []
                    for e in evs:
                        if e.d.get("op") == "=" or (e.d.get("op") in KILL_MULT and is_zero_val(e.d.get("val"))):
                            region = e.d.get("region") if e.d.get("view") == "whole" else ("whole" if (e.d.get("region") == "whole" and e.d.get("view") in ("whole", "reshape")) else None)
                            plain.append((e, region))
                    cond = [e for e, _ in plain if e.preds]
                    if not cond:
                        chk.ok(rule, key, c.where, "no store under an input-valued condition")
                        continue
                    # only whole-block questions: is there, on every path, some plain store to the block?
                    whole = [(e, "whole") for e, _ in plain]
                    res = covered_under("whole", whole, None, frozenset(), 0)
                    if res == "covered":
                        chk.ok(rule, key, c.where, "assigned or reset on every input-dependent path")
                    elif res == "uncovered":
                        e0 = cond[0]
                        chk.violation(rule, key, where(c, e0.lineno), "partials[%r, %r] is assigned only under the input-valued condition(s) %s and neither reset before nor assigned on the other branch: on that branch the block keeps the Jacobian of the previously linearised point" % (of, wrt, sorted({"%s=%s" % (str(a)[:60], b) for e in cond for a, b, _ in e.preds})[:4]))
                    else:
                        chk.undecided(rule, key, c.where, "path coverage not decided")


# --------------------------------------------------------------------------- R5
def r5(chk, repo, models):
    """No early exit on an input-valued condition before the outputs are written."""
    chk.rule("R5", "no evaluation / linearisation method returns early under a condition on its inputs while outputs, residuals or partials that it writes later are still unwritten (they would keep the values of the previous call: a result that depends on the history)", min_decided=60)
    for m in models:
        c = m.cls
        if c.name in POSTPROCESSING or c.name in NEVER_INSTANTIATED:
            continue
        for mname, runs in m.runs.items():
            if mname in SETUP_METHODS or mname not in c.methods:
                continue
            f = c.methods[mname]
            # input-valued tests seen by the interpreter, by line
            inp_lines = set()
            for r in runs:
                for e in r.events:
                    if e.kind == "test" and e.func is f and any(str(d).startswith(("in:", "out:")) for d in (e.d.get("dep") or ())):
                        inp_lines.add(e.lineno)
            parents = {}
            for n in ast.walk(f.node):
                for ch in ast.iter_child_nodes(n):
                    parents[id(ch)] = n
            last = f.node.body[-1] if f.node.body else None
            bad = []
            for n in ast.walk(f.node):
                if not isinstance(n, ast.Return) or n is last:
                    continue
                cur, tests = n, []
                while id(cur) in parents:
                    par = parents[id(cur)]
                    if isinstance(par, ast.If):
                        tests.append(par)
                    if isinstance(par, (ast.FunctionDef, ast.AsyncFunctionDef)) and par is not f.node:
                        tests = None
                        break
                    cur = par
                if not tests:
                    continue
                inp = [t for t in tests if t.lineno in inp_lines]
                if not inp:
                    continue
                # storage written after the return but not before it
                before, after = set(), set()
                for r in runs:
                    for e in r.events:
                        if e.kind == "store" and e.d.get("cell") and e.d["cell"][0] in ("out", "res", "partials") and e.func is f:
                            (before if e.lineno < n.lineno else after).add(e.d["cell"])
                # the interpreter may have pruned the code after an always-taken return: fall back to the AST
                if not after:
                    for st in ast.walk(f.node):
                        if isinstance(st, (ast.Assign, ast.AugAssign)) and st.lineno > n.lineno:
                            tg = st.targets[0] if isinstance(st, ast.Assign) else st.target
                            root = tg
                            while isinstance(root, ast.Subscript):
                                prev = root
                                root = root.value
                            if isinstance(root, ast.Name) and root.id in ("outputs", "residuals", "partials", "J"):
                                after.add(("?", unparse(tg)[:40]))
                missing = sorted(str(x) for x in after - before)
                if missing:
                    bad.append((n, inp[0], missing))
            key = "%s.%s" % (c.name, mname)
            if bad:
                n, t, missing = bad[0]
                chk.violation("R5", "%s: early return under '%s'" % (key, " ".join(unparse(t.test).split())[:60]), where(c, n.lineno), "returns at line %d when the input-valued condition '%s' holds, before %s is written: on that path the storage keeps the values of the previous evaluation" % (n.lineno, " ".join(unparse(t.test).split())[:80], missing[:3]))
            else:
                chk.ok("R5", key, f.where, "no early exit on input values")


# --------------------------------------------------------------------------- R2
def _self_attr_writes(cls, methods):
    """attribute -> [(method, lineno)] written (bound, element-stored, augmented,
    mutated in place) in the given methods (helpers called through self included)."""
    out = {}
    seen = set()
    work = [m for m in methods if m in cls.methods]
    while work:
        mn = work.pop()
        if mn in seen:
            continue
        seen.add(mn)
        f = cls.methods[mn]
        for n in ast.walk(f.node):
            tg = []
            if isinstance(n, ast.Assign):
                tg = list(n.targets)
            elif isinstance(n, (ast.AugAssign, ast.AnnAssign)):
                tg = [n.target]
            for t in tg:
                for tt in (t.elts if isinstance(t, (ast.Tuple, ast.List)) else [t]):
                    root, _ = _root(tt)
                    if isinstance(root, ast.Attribute) and isinstance(root.value, ast.Name) and root.value.id == "self":
                        out.setdefault(root.attr, []).append((mn, n.lineno))
            if isinstance(n, ast.Call) and isinstance(n.func, ast.Attribute):
                if isinstance(n.func.value, ast.Name) and n.func.value.id == "self" and n.func.attr in cls.methods:
                    work.append(n.func.attr)
                if n.func.attr in MUTATING_METHODS:
                    root, _ = _root(n.func.value)
                    if isinstance(root, ast.Attribute) and isinstance(root.value, ast.Name) and root.value.id == "self":
                        out.setdefault(root.attr, []).append((mn, n.lineno))
    return out


def _attrs_in_test(f, test):
    """self attributes a test expression depends on, directly or through a
    local assigned from a self attribute in the same function."""
    local_src = {}
    for n in ast.walk(f.node):
        if isinstance(n, ast.Assign) and len(n.targets) == 1:
            names = []
            t = n.targets[0]
            if isinstance(t, ast.Name):
                names = [t.id]
            elif isinstance(t, (ast.Tuple, ast.List)):
                names = [e.id for e in t.elts if isinstance(e, ast.Name)]
            attrs = {m.attr for m in ast.walk(n.value) if isinstance(m, ast.Attribute) and isinstance(m.value, ast.Name) and m.value.id == "self"}
            attrs |= {m.args[1].value for m in ast.walk(n.value) if isinstance(m, ast.Call) and unparse(m.func) == "getattr" and len(m.args) >= 2 and unparse(m.args[0]) == "self" and isinstance(m.args[1], ast.Constant)}
            for nm in names:
                if attrs:
                    local_src.setdefault(nm, set()).update(attrs)
    out = set()
    for m in ast.walk(test):
        if isinstance(m, ast.Attribute) and isinstance(m.value, ast.Name) and m.value.id == "self":
            out.add(m.attr)
        elif isinstance(m, ast.Name) and m.id in local_src:
            out |= local_src[m.id]
        elif isinstance(m, ast.Call) and unparse(m.func) in ("hasattr", "getattr") and len(m.args) >= 2 and unparse(m.args[0]) == "self" and isinstance(m.args[1], ast.Constant):
            out.add(m.args[1].value)
        elif isinstance(m, ast.Call) and unparse(m.func) in ("self.__dict__.get", "vars(self).get") and m.args and isinstance(m.args[0], ast.Constant):
            out.add(m.args[0].value)
        elif isinstance(m, ast.Compare) and any(isinstance(o, (ast.In, ast.NotIn)) for o in m.ops) and isinstance(m.left, ast.Constant) and any(unparse(c_) in ("self.__dict__", "vars(self)") for c_ in m.comparators):
            out.add(m.left.value)
    return out


R2_EXEMPT = {}


def r2(chk, repo, models):
    chk.rule(
        "R2",
        "no branch of an evaluation / linearisation method depends on instance state that such methods themselves write (memo flags, 'unchanged since last call' shortcuts, lazily initialised caches): the result of a call must not depend on what was evaluated before",
        min_decided=100,
    )
    for m in models:
        c = m.cls
        if c.name in POSTPROCESSING or c.name in NEVER_INSTANTIATED:
            continue
        run_methods = [mn for mn in c.methods if mn in EVAL_METHODS or mn in LIN_METHODS]
        if not run_methods:
            continue
        writes = _self_attr_writes(c, run_methods)
        # helpers reached from the run-time methods
        reach = set()
        work = list(run_methods)
        while work:
            mn = work.pop()
            if mn in reach or mn not in c.methods:
                continue
            reach.add(mn)
            for n in ast.walk(c.methods[mn].node):
                if isinstance(n, ast.Call) and isinstance(n.func, ast.Attribute) and isinstance(n.func.value, ast.Name) and n.func.value.id == "self" and n.func.attr in c.methods:
                    work.append(n.func.attr)
        for mn in sorted(reach):
            f = c.methods[mn]
            bad = []
            for n in ast.walk(f.node):
                test = None
                if isinstance(n, (ast.If, ast.While, ast.IfExp)):
                    test = n.test
                elif isinstance(n, ast.Assert):
                    test = n.test
                if test is None:
                    continue
                for a in sorted(_attrs_in_test(f, test)):
                    if a in writes and (c.name, a) not in R2_EXEMPT:
                        bad.append((n.lineno, a, unparse(test)[:80]))
            key = "%s.%s" % (c.name, mn)
            if bad:
                for ln, a, txt in bad:
                    wm, wl = writes[a][0]
                    chk.violation("R2", "%s: branch on self.%s" % (key, a), where(c, ln), "'%s' tests self.%s, which is written at run time by %s (line %d): the outcome of this call depends on earlier evaluations / linearisations" % (txt, a, wm, wl))
            else:
                chk.ok("R2", key, f.where, "no branch on run-time instance state")


# --------------------------------------------------------------------------- R4
def r4(chk, repo, rule="R4", consumers=None, min_decided=15):
    """Evaluation order: in a group that is evaluated once per run (no iterative
    nonlinear solver) every subsystem is added after the subsystems that produce
    its inputs; a backward edge makes an output depend on the previous run."""
    from ..groups import all_group_models
    from ..wiring import edges, level_view
    from .c02 import ITERATIVE_NONLINEAR

    chk.rule(rule, "in every group evaluated with the default run-once solver each subsystem's inputs are produced by subsystems added earlier (promoted names and explicit connections resolved per option valuation); a consumer placed before its producer would use the values of the previous evaluation", min_decided=min_decided)
    for gm in all_group_models(repo, chk):
        g = gm.cls
        for gr in gm.runs:
            for owner in gr.owners():
                nls = gr.solvers.get((owner, "nonlinear_solver"))
                if nls and nls[0] in ITERATIVE_NONLINEAR:
                    continue
                lv = level_view(repo, gr, owner)
                es = edges(repo, gr, owner, lv)
                key0 = "%s[%s]" % (g.name, owner)
                bad = []
                for p, c, n, kind, e in es:
                    if p in lv.order and c in lv.order and lv.order.index(p) > lv.order.index(c):
                        if consumers is not None:
                            cc = [s.cls_name for s in gr.subs_of(owner) if s.name and s.name.replace("[0]", "[i]") == c]
                            if not cc or cc[0] not in consumers:
                                continue
                        bad.append((p, c, n, kind))
                if bad:
                    for p, c, n, kind in sorted(set(bad)):
                        chk.violation(rule, "%s: %s reads '%s' produced later by %s" % (key0, c, n, p), g.where, "subsystem '%s' is added before '%s', which produces its input '%s' (%s) under %s: with the run-once solver it sees the value of the previous evaluation (zeros on the first run)" % (c, p, n, kind, sig_txt(gr.sigma)))
                elif es:
                    chk.ok(rule, "%s %s" % (key0, sig_txt(gr.sigma)), g.where, "%d data edges, all forward" % len(es))
