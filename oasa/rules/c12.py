"""C12 -- coupled fixed point: structure of the coupling cycle, solver on the
cycle, isolation of flight points."""
from ..groups import all_group_models
from ..load import ClassInfo
from .c02 import CAPABLE_LINEAR, ITERATIVE_NONLINEAR, first_comp, group_graph, has_cycle
from .c03 import r3
from .common import sig_txt, where

AS = "openaerostruct/integration/aerostruct_groups.py"


def f1_f2(chk, repo):
    chk.rule("F1", "per surface the coupled group closes the cycle structure -> deformed mesh -> aerodynamic states -> load transfer -> structure, and nothing downstream of the coupled group is connected back into it", min_decided=8)
    chk.rule("F2", "every cyclic group has an iterative nonlinear solver with err_on_non_converge=True and an absolute tolerance, and a capable linear solver", min_decided=8)
    cyclic_found = 0
    need = {"struct": {"CoupledAS"}, "aero": {"VLMStates", "CompressibleVLMStates"}, "loads": {"LoadTransfer"}}
    for gm in all_group_models(repo, chk):
        g = gm.cls
        for gr in gm.runs:
            for owner in gr.owners():
                nodes, edges = group_graph(gr, owner)
                cyc = has_cycle(nodes, edges)
                subs = {s.name: s for s in gr.subs_of(owner)}
                kinds = {k: any(s.cls_name in v for s in subs.values()) for k, v in need.items()}
                is_coupled = all(kinds.values())
                if not cyc and not is_coupled:
                    continue
                cyclic_found += 1
                key = "%s[%s] %s" % (g.name, owner, sig_txt(gr.sigma))
                if not cyc:
                    chk.violation("F1", key + ": cycle", g.where, "the group holds the structural, aerodynamic and load-transfer subsystems but their connections do not close a cycle: loads and displacements are not mutually consistent")
                    cyc = []
                cyc_nodes = set(cyc)
                classes = {}
                for n in cyc_nodes:
                    s = subs.get(n)
                    classes[n] = s.cls_name if s else "?"
                have = {k: any(c in v for c in classes.values()) for k, v in need.items()}
                if cyc and all(have.values()):
                    chk.ok("F1", key + ": cycle", g.where, "cycle %s with classes %s" % ("->".join(cyc), sorted(set(classes.values()))))
                elif cyc:
                    chk.violation("F1", key + ": cycle", g.where, "the coupling cycle %s (classes %s) lacks %s" % ("->".join(cyc), sorted(set(classes.values())), [k for k, v in have.items() if not v]))
                # all three per-surface edges present
                es = {(a, b) for a, b in edges}
                per = [n for n, s in subs.items() if s.cls_name == "CoupledAS"]
                for n in per:
                    ln = n + "_loads"
                    missing = [e for e in ((ln, n), (n, "aero_states"), ("aero_states", ln), (n, ln)) if e not in es]
                    if missing:
                        chk.violation("F1", key + ": edges of " + n, g.where, "connections %s are missing from the coupled group: the loop loads->structure->mesh->aero->loads is open" % missing)
                    else:
                        chk.ok("F1", key + ": edges of " + n, g.where, "loads->struct, struct->aero_states (def_mesh/normals), aero_states->loads, struct->loads (def_mesh) all connected")
                # feedback from downstream
                down = set()
                order = [s.name for s in gr.subs_of("self")]
                if owner in order:
                    down = set(order[order.index(owner) + 1:])
                fb = [(a, b) for o, a, b, e in gr.connects if o == "self" and a and b and first_comp(b) == owner and first_comp(a) in down]
                if fb:
                    chk.violation("F1", key + ": feedback", g.where, "subsystems evaluated after the coupled group feed it: %s (state of the previous evaluation leaks into the fixed point)" % fb)
                else:
                    chk.ok("F1", key + ": feedback", g.where, "no connection from a later subsystem into the coupled group")
                # F2
                nls = gr.solvers.get((owner, "nonlinear_solver"))
                ls = gr.solvers.get((owner, "linear_solver"))
                w = where(g, nls[2].lineno) if nls else g.where
                if not nls or nls[0] not in ITERATIVE_NONLINEAR:
                    chk.violation("F2", key + ": nonlinear solver", w, "cyclic group has nonlinear solver %s: the cycle is evaluated once, the state depends on the previous call" % (nls[0] if nls else "unset (NonlinearRunOnce)"))
                else:
                    eo = gr.solver_opts.get((owner, "nonlinear_solver", "err_on_non_converge"))
                    eok = nls[1].get("err_on_non_converge")
                    val = eo[0] if eo else eok
                    atol = gr.solver_opts.get((owner, "nonlinear_solver", "atol")) or nls[1].get("atol")
                    if val is None or not (val.kind == "bool" and bool(val.sym)):
                        chk.violation("F2", key + ": err_on_non_converge", w, "nonlinear solver %s does not raise on non-convergence: an unconverged coupled state is returned silently" % nls[0])
                    else:
                        chk.ok("F2", key + ": err_on_non_converge", w, "%s raises on non-convergence" % nls[0])
                    if atol is None:
                        chk.undecided("F2", key + ": atol", w, "no absolute tolerance set explicitly")
                    else:
                        chk.ok("F2", key + ": atol", w, "absolute tolerance set")
                if ls and ls[0] in CAPABLE_LINEAR:
                    chk.ok("F2", key + ": linear solver", w, ls[0])
                else:
                    chk.violation("F2", key + ": linear solver", w, "cyclic group has linear solver %s" % (ls[0] if ls else "unset (LinearRunOnce)"))
    if not cyclic_found:
        chk.error("no cyclic group found: the coupled aerostructural group is no longer recognised")


def run(chk, repo, tier):
    from .c03 import r2
    from .common import all_models

    f1_f2(chk, repo)
    r3(chk, repo)
    models = all_models(repo, chk)
    r2(chk, repo, models)
    # independence from the initial guess: every output completely written, no early exit
    from .c03 import r5, r7

    r5(chk, repo, models)
    r7(chk, repo, models)
