"""C08 -- ground effect = method of images: rejection without symmetry (G1),
image strength and stacking (G2)."""
import sympy as sp

from ..load import unparse
from ..model import component_model
from .common import sig_txt, where

VM = "openaerostruct/aerodynamics/vortex_mesh.py"
EM = "openaerostruct/aerodynamics/eval_mtx.py"


def _atoms(sigma, frag):
    return {k: v for k, v in sigma.items() if frag in k}


def g1(chk, repo):
    chk.rule("G1", "VortexMesh.setup rejects (raises) exactly the valuations in which some surface has groundplane without symmetry, before declaring that surface's output", min_decided=8)
    m = component_model(repo, repo.cls(VM, "VortexMesh"))
    runs = m.runs.get("setup", [])
    for r in runs:
        # per placeholder: groundplane / symmetry truth
        bad = False
        undecided = False
        for ph in ("surfaces[0]", "surfaces[i]"):
            gp = [v for k, v in r.sigma.items() if k.startswith(ph) and "groundplane" in k]
            sy = [v for k, v in r.sigma.items() if k.startswith(ph) and "symmetry" in k]
            if gp and gp[0] and sy and not sy[0]:
                bad = True
            if gp and gp[0] and not sy:
                undecided = True
        raised = r.final is None
        key = "VortexMesh.setup %s" % sig_txt(r.sigma)
        rs = [e for e in r.events if e.kind == "raise"]
        w = where(m.cls, rs[0].lineno) if rs else m.cls.where
        if undecided:
            chk.undecided("G1", key, w, "symmetry not consulted")
        elif bad and raised:
            # the raise precedes the output declaration of the offending surface
            last_out = [e for e in r.events if e.kind == "io" and e.role == "output" and rs and e.seq > rs[0].seq]
            chk.ok("G1", key, w, "raises %s" % (rs[0].exc if rs else "?"))
        elif bad and not raised:
            chk.violation("G1", key, w, "ground effect without symmetry is accepted under %s: the ghost image is built for a half model only, results are silently wrong" % sig_txt(r.sigma))
        elif raised:
            chk.violation("G1", key, w, "setup raises for an admissible configuration %s" % sig_txt(r.sigma))
        else:
            chk.ok("G1", key, w, "accepted (no groundplane without symmetry)")


def _mults_and_split(run):
    mults = []
    splits = []
    for e in run.events:
        if e.kind != "assign" or e.val is None:
            continue
        v = e.val
        if v.kind == "list" and v.items is not None and len(v.items) >= 1 and all(x.kind == "num" and x.sym is not None and x.sym.is_number for x in v.items):
            mults.append((e, [sp.nsimplify(x.sym) for x in v.items]))
        if v.kind == "list" and v.items is not None and len(v.items) >= 1 and all(x.kind == "arr" and isinstance(x.extra, tuple) and x.extra and x.extra[0] == "sub" for x in v.items) and any(d.startswith("in:") and "vectors" in d for x in v.items for d in x.dep):
            sl = []
            for x in v.items:
                sv = x.extra[3]
                ax1 = sv.items[1] if (sv.kind == "tuple" and sv.items and len(sv.items) > 1) else None
                sl.append(ax1.extra if ax1 is not None and ax1.kind == "slice" else None)
            splits.append((e, sl))
    return mults, splits


def g2(chk, repo):
    chk.rule("G2", "with ground effect the influence of the image half of the vectors array is counted with strength -1 (real +1), identically in compute and compute_partials, and the array is split at nx exactly as VortexMesh stacks real and image meshes", min_decided=6)
    c = repo.cls(EM, "EvalVelMtx")
    m = component_model(repo, c)
    seen = {}
    for mname in ("compute", "compute_partials"):
        for run in m.runs.get(mname, []):
            gp = [v for k, v in run.sigma.items() if "groundplane" in k]
            if not gp or run.final is None:
                continue
            gp = gp[0]
            mults, splits = _mults_and_split(run)
            key = "EvalVelMtx.%s[groundplane=%s]" % (mname, gp)
            if not mults or (gp and not splits):
                chk.undecided("G2", key, c.where, "vortex multiplier list / vectors split not recognised")
                continue
            e, vals = mults[-1]
            es, sl = splits[-1] if splits else (e, [])
            want = [1, -1] if gp else [1]
            if vals != want:
                chk.violation("G2", key + ": strengths", where(c, e.lineno), "vortex strengths are %s under %s; the method of images needs %s (image rings with opposite circulation)" % (vals, sig_txt(run.sigma), want))
            else:
                chk.ok("G2", key + ": strengths", where(c, e.lineno), "strengths %s" % vals)
            nx = sp.Symbol("nx_i", integer=True, positive=True)
            if gp:
                ok = len(sl) == 2 and sl[0] is not None and sl[1] is not None and sl[0][0] is None and sl[0][1] is not None and sp.sympify(sl[0][1]) == nx and sl[1][1] is None and sp.sympify(sl[1][0]) == nx
                if ok:
                    chk.ok("G2", key + ": split", where(c, es.lineno), "vectors[:, :nx] real, vectors[:, nx:] image")
                elif any(x is None for x in sl):
                    chk.undecided("G2", key + ": split", where(c, es.lineno), "split slices not resolved")
                else:
                    chk.violation("G2", key + ": split", where(c, es.lineno), "vectors array split as %s, not [:nx] / [nx:]: real and image rings are mixed" % (sl,))
            seen[(mname, gp)] = vals
    for gp in (True, False):
        a, b = seen.get(("compute", gp)), seen.get(("compute_partials", gp))
        if a is not None and b is not None:
            if a == b:
                chk.ok("G2", "EvalVelMtx: strengths agree [groundplane=%s]" % gp, c.where, "compute and compute_partials use %s" % a)
            else:
                chk.violation("G2", "EvalVelMtx: strengths agree [groundplane=%s]" % gp, c.where, "compute uses %s, compute_partials %s" % (a, b))
    # VortexMesh stacking: real rows [:nx], image rows [nx:]
    vm = component_model(repo, repo.cls(VM, "VortexMesh"))
    for run in vm.runs.get("compute", []):
        gp = [v for k, v in run.sigma.items() if "groundplane" in k]
        if not gp or not gp[0] or run.final is None:
            continue
        nx = sp.Symbol("nx_i", integer=True, positive=True)
        real = image = False
        for e in run.events:
            if e.kind == "store" and e.cell is None and e.region not in (None, "whole") and e.op == "=":
                ax0 = e.region[0]
                if ax0[0] == "range" and ax0[1] is None and ax0[2] is not None and ax0[2] != "?" and sp.sympify(ax0[2]) == nx and any(d.startswith("in:") for d in e.dep):
                    real = True
                if ax0[0] == "range" and ax0[2] is None and ax0[1] not in (None, "?") and sp.sympify(ax0[1]) == nx:
                    image = True
        key = "VortexMesh.compute[groundplane] %s" % sig_txt(run.sigma)
        if real and image:
            chk.ok("G2", key, vm.cls.where, "real mesh stored to rows [:nx], reflected mesh to rows [nx:]")
        else:
            chk.undecided("G2", key, vm.cls.where, "stacking of real and image meshes not recognised")


def run(chk, repo, tier):
    from .c19 import keys_rule
    from .c20 import l3b
    from .common import all_models

    g1(chk, repo)
    g2(chk, repo)
    # the guard keys reach VortexMesh unchanged: copied for multi-section surfaces, never rewritten
    keys_rule(chk, repo, rule="G4", only_keys={"groundplane", "symmetry"})
    l3b(chk, repo, all_models(repo), rule="G1b", only_keys={"groundplane", "symmetry"})
    # the image construction is dimensionally homogeneous: the height enters as a length
    from .c06 import u1

    u1(chk, repo, only={"VortexMesh", "GetVectors", "EvalVelMtx"}, rule="G5", min_decided=3, dimconst=False)
