"""C19 -- composition of surfaces: index bookkeeping.

O1 prefix-sum discipline of running offsets, O2 per-element values do not
escape their loop, O3 mux/demux inverse index maps (with C02-S3).
"""
import sympy as sp

from ..absint import SUM, list_sum
from .common import NEVER_INSTANTIATED, POSTPROCESSING, all_models, sig_txt, where


def _off_syms(e):
    return {x for x in sp.sympify(e).free_symbols if x.name.startswith("OFF_")}


def o1(chk, repo, models):
    chk.rule(
        "O1",
        "running offsets over a surface/section list start at 0, advance once per iteration by exactly the width of the block they address (slice width == advance, polynomial identity in the mesh sizes), and the addressed axis has length sum-over-list of the advance",
        min_decided=24,
    )
    for m in models:
        c = m.cls
        if c.name in POSTPROCESSING:
            continue
        for mname, runs in m.runs.items():
            for run in runs:
                if run.final is None:
                    continue
                _o1_run(chk, m, mname, run)


def _o1_run(chk, m, mname, run):
    c = m.cls
    offs = {}  # OFF symbol -> offset event
    by_loop = {}
    for e in run.events:
        if e.kind == "offset" and e.off is not None:
            init = e.init
            if init is None or not (init.is_Integer or init.is_integer):
                continue
            offs[e.off] = e
            by_loop.setdefault(e.lineno, []).append(e)
    if not offs:
        return
    used = set()
    for e in run.events:
        if e.kind not in ("offslice", "offadd"):
            continue
        # only the first generic pass (the second pass starts at OFF + advance and repeats the instance)
        if not e.loops or any(l.tag == "generic2" for l in e.loops):
            continue
        if e.kind == "offslice":
            lo, hi = e.lo, e.hi
            if lo == "?" or hi == "?" or e.step is not None:
                continue
            syms = set()
            for x in (lo, hi):
                if x is not None:
                    syms |= _off_syms(x)
            syms = {s for s in syms if s in offs}
            if not syms:
                continue
            if lo is not None and hi is not None:
                used |= syms
            key = "%s.%s: %s" % (c.name, mname, " ".join(e.text.split()))
            w = where(c, e.lineno)
            classes = {(offs[s].init, offs[s].adv) for s in syms}
            if any(a is None for _, a in classes):
                chk.undecided("O1", key, w, "offset not advanced by a path-independent amount")
                continue
            if len(classes) != 1:
                chk.violation("O1", key, w, "slice bounds mix offsets that advance differently: %s" % sorted((str(offs[s].name), str(offs[s].adv)) for s in syms))
                continue
            init, adv = next(iter(classes))
            B = sp.Symbol("BASE", integer=True, nonnegative=True)
            sub = {s: B for s in syms}
            if lo is None:
                chk.info("O1", key, w, "prefix slice [:offset] (not a block)")
                continue
            lo2 = sp.expand(sp.sympify(lo).subs(sub))
            if hi is None:
                chk.info("O1", key, w, "suffix slice [offset:] (not a block)")
                continue
            hi2 = sp.expand(sp.sympify(hi).subs(sub))
            width = sp.expand(hi2 - lo2)
            disp = sp.expand(lo2 - B)
            if B in width.free_symbols or B in disp.free_symbols:
                los = e.d.get("lo_src")
                if B in width.free_symbols and los and los.isidentifier() and not _off_syms(lo):
                    chk.violation("O1", key, w, "the lower bound '%s' is never advanced in the loop while the upper bound advances by %s per iteration: the blocks of successive surfaces overlap" % (los, adv))
                else:
                    chk.undecided("O1", key, w, "bounds are not offset + constant")
                continue
            if sp.expand(width - adv) != 0:
                chk.violation(
                    "O1",
                    key,
                    w,
                    "block width (%s) differs from the per-iteration advance of %s (%s) under %s: blocks of successive surfaces overlap or leave gaps" % (width, sorted(str(offs[s].name) for s in syms), adv, sig_txt(run.sigma)),
                )
                continue
            if init != 0:
                chk.violation("O1", key, w, "offset %s starts at %s, not 0" % (sorted(str(offs[s].name) for s in syms), init))
                continue
            ev0 = offs[next(iter(syms))]
            if e.dim is not None and disp == 0 and ev0.loop_kind == "cfglist":
                tot = sp.expand(list_sum(ev0.list_cx, adv))
                if sp.expand(e.dim - tot) == 0:
                    chk.ok("O1", key, w, "width == advance == %s; axis length == SUM == %s" % (adv, tot))
                elif not any(x.name.startswith("TOT_") for x in sp.sympify(e.dim).free_symbols) and sp.sympify(e.dim).has(SUM):
                    chk.violation("O1", key, w, "blocks of width %s tile an axis of length %s, not %s" % (adv, e.dim, tot))
                else:
                    chk.ok("O1", key, w, "width == advance == %s (axis length %s not comparable)" % (adv, e.dim))
            else:
                chk.ok("O1", key, w, "width == advance == %s" % adv)
        else:
            syms = {s for s in _off_syms(e.off) if s in offs}
            if not syms or len(syms) != 1:
                continue
            s0 = next(iter(syms))
            ev0 = offs[s0]
            arr = e.arr
            if not (arr.extra and arr.extra[0] == "arange" and arr.shape and len(arr.shape) == 1 and arr.shape[0] is not None):
                continue
            used.add(s0)
            key = "%s.%s: %s" % (c.name, mname, " ".join(e.text.split()))
            w = where(c, e.lineno)
            if ev0.adv is None:
                chk.undecided("O1", key, w, "offset not advanced by a path-independent amount")
                continue
            lo = arr.extra[1]
            n = arr.shape[0]
            if lo is None or lo != 0:
                continue
            if sp.expand(n - ev0.adv) == 0 and ev0.init == 0:
                chk.ok("O1", key, w, "index block arange(%s) + offset; advance == %s" % (n, ev0.adv))
            else:
                chk.violation("O1", key, w, "index block arange(%s) + %s but %s advances by %s per iteration (init %s) under %s: blocks overlap or leave gaps" % (n, ev0.name, ev0.name, ev0.adv, ev0.init, sig_txt(run.sigma)))
    # offsets that address blocks but are never advanced
    for s in used:
        ev = offs[s]
        if ev.adv is not None and ev.adv == 0:
            chk.violation("O1", "%s.%s: offset %s" % (c.name, mname, ev.name), where(c, ev.lineno), "offset %s addresses per-surface blocks but is not advanced in the loop" % ev.name)


def o2(chk, repo, models):
    chk.rule("O2", "a value derived from the element of one loop over surfaces/sections is not used in a later loop over the same list without being re-derived", min_decided=20)
    for m in models:
        c = m.cls
        if c.name in POSTPROCESSING:
            continue
        for mname, runs in m.runs.items():
            stale = {}
            loops_seen = set()
            for run in runs:
                for e in run.events:
                    if e.kind == "stale_elem":
                        stale.setdefault((e.name, e.loop_b), e)
                    for l in e.loops:
                        if l.kind in ("cfglist",) or (l.kind == "range" and "len(" in (l.cx or "")):
                            loops_seen.add(l.node.lineno)
            for (nm, lb), e in stale.items():
                chk.violation(
                    "O2",
                    "%s.%s: '%s' in loop at line %d" % (c.name, mname, nm, lb),
                    where(c, e.lineno),
                    "'%s' (= %s) was derived from the element of the loop at line %d (assigned at line %d) and is used in the later loop over the same list at line %d without being re-derived: every iteration sees the last element's value" % (nm, e.val.sym if e.val.sym is not None else e.val.cx, e.loop_a, e.assigned_line, lb),
                )
            for ln in sorted(loops_seen):
                if not any(lb == ln for (_, lb) in stale):
                    chk.ok("O2", "%s.%s: loop at line %d" % (c.name, mname, ln), where(c, ln), "no stale per-element value")


def run(chk, repo, tier):
    models = all_models(repo, chk)
    o1(chk, repo, models)
    o2(chk, repo, models)
