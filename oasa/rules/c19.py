"""C19 -- composition of surfaces: index bookkeeping.

O1 prefix-sum discipline of running offsets, O2 per-element values do not
escape their loop, O3 mux/demux inverse index maps (with C02-S3).
"""
import sympy as sp

from ..absint import SUM, list_sum
from .common import NEVER_INSTANTIATED, POSTPROCESSING, all_models, sig_txt, where


def _off_syms(e):
    return {x for x in sp.sympify(e).free_symbols if x.name.startswith("OFF_")}


def o1(chk, repo, models):
    chk.rule(
        "O1",
        "running offsets over a surface/section list start at 0, advance once per iteration by exactly the width of the block they address (slice width == advance, polynomial identity in the mesh sizes), and the addressed axis has length sum-over-list of the advance",
        min_decided=24,
    )
    for m in models:
        c = m.cls
        if c.name in POSTPROCESSING:
            continue
        for mname, runs in m.runs.items():
            for run in runs:
                if run.final is None:
                    continue
                _o1_run(chk, m, mname, run)


def _mesh_sign(e):
    """Sign of an integer polynomial in mesh sizes, every size being at least 2
    (a lifting surface has at least two chordwise and two spanwise mesh lines):
    substitute s = 2 + t, t >= 0 and read the coefficient signs.  'pos' means
    non-negative everywhere and positive for some admissible sizes."""
    e = sp.expand(sp.sympify(e))
    if e == 0:
        return "zero"
    syms = sorted(e.free_symbols, key=str)
    ts = {x: sp.Symbol("t_%d" % i, nonnegative=True) for i, x in enumerate(syms)}
    q = sp.expand(e.subs({x: 2 + t for x, t in ts.items()}))
    try:
        coeffs = list(sp.Poly(q, *ts.values()).coeffs()) if syms else [q]
    except Exception:
        return None
    if not all(c.is_number for c in coeffs):
        return None
    if all(c > 0 for c in coeffs):
        return "pos"
    if all(c >= 0 for c in coeffs):
        return "pos" if any(c > 0 for c in coeffs) else "zero"
    if all(c <= 0 for c in coeffs):
        return "nonpos"
    return None


def _o1_run(chk, m, mname, run):
    c = m.cls
    offs = {}  # OFF symbol -> offset event
    by_loop = {}
    for e in run.events:
        if e.kind == "offset" and e.off is not None:
            init = e.init
            if init is None or not (init.is_Integer or init.is_integer):
                continue
            offs[e.off] = e
            by_loop.setdefault(e.lineno, []).append(e)
    if not offs:
        return
    used = set()
    for e in run.events:
        if e.kind not in ("offslice", "offadd"):
            continue
        # only the first generic pass (the second pass starts at OFF + advance and repeats the instance)
        if not e.loops or any(l.tag == "generic2" for l in e.loops):
            continue
        if e.kind == "offslice":
            lo, hi = e.lo, e.hi
            if lo == "?" or hi == "?" or e.step is not None:
                continue
            syms = set()
            for x in (lo, hi):
                if x is not None:
                    syms |= _off_syms(x)
            syms = {s for s in syms if s in offs}
            if not syms:
                continue
            if lo is not None and hi is not None:
                used |= syms
            key = "%s.%s: %s" % (c.name, mname, " ".join(e.text.split()))
            w = where(c, e.lineno)
            classes = {(offs[s].init, offs[s].adv) for s in syms}
            if any(a is None for _, a in classes):
                ow = [offs[s] for s in syms if offs[s].d.get("overwritten")]
                if ow:
                    chk.violation("O1", key, w, "offset '%s' is overwritten in the loop with %s instead of being accumulated: from the third surface on the blocks overlap" % (ow[0].name, ow[0].d.get("endval")))
                else:
                    chk.undecided("O1", key, w, "offset not advanced by a path-independent amount")
                continue
            if len(classes) != 1:
                chk.violation("O1", key, w, "slice bounds mix offsets that advance differently: %s" % sorted((str(offs[s].name), str(offs[s].adv)) for s in syms))
                continue
            init, adv = next(iter(classes))
            B = sp.Symbol("BASE", integer=True, nonnegative=True)
            sub = {s: B for s in syms}
            if lo is None:
                chk.info("O1", key, w, "prefix slice [:offset] (not a block)")
                continue
            lo2 = sp.expand(sp.sympify(lo).subs(sub))
            if hi is None:
                chk.info("O1", key, w, "suffix slice [offset:] (not a block)")
                continue
            hi2 = sp.expand(sp.sympify(hi).subs(sub))
            width = sp.expand(hi2 - lo2)
            disp = sp.expand(lo2 - B)
            if B in width.free_symbols or B in disp.free_symbols:
                los = e.d.get("lo_src")
                if B in width.free_symbols and los and los.isidentifier() and not _off_syms(lo):
                    chk.violation("O1", key, w, "the lower bound '%s' is never advanced in the loop while the upper bound advances by %s per iteration: the blocks of successive surfaces overlap" % (los, adv))
                else:
                    chk.undecided("O1", key, w, "bounds are not offset + constant")
                continue
            if sp.expand(width - adv) != 0:
                chk.violation(
                    "O1",
                    key,
                    w,
                    "block width (%s) differs from the per-iteration advance of %s (%s) under %s: blocks of successive surfaces overlap or leave gaps" % (width, sorted(str(offs[s].name) for s in syms), adv, sig_txt(run.sigma)),
                )
                continue
            if init != 0:
                chk.violation("O1", key, w, "offset %s starts at %s, not 0" % (sorted(str(offs[s].name) for s in syms), init))
                continue
            ev0 = offs[next(iter(syms))]
            if e.dim is not None and disp == 0 and ev0.loop_kind == "cfglist":
                tot = sp.expand(list_sum(ev0.list_cx, adv))
                if sp.expand(e.dim - tot) == 0:
                    chk.ok("O1", key, w, "width == advance == %s; axis length == SUM == %s" % (adv, tot))
                elif not any(x.name.startswith("TOT_") for x in sp.sympify(e.dim).free_symbols) and sp.sympify(e.dim).has(SUM):
                    chk.violation("O1", key, w, "blocks of width %s tile an axis of length %s, not %s" % (adv, e.dim, tot))
                else:
                    chk.ok("O1", key, w, "width == advance == %s (axis length %s not comparable)" % (adv, e.dim))
            else:
                chk.ok("O1", key, w, "width == advance == %s" % adv)
        else:
            syms = {s for s in _off_syms(e.off) if s in offs}
            if not syms or len(syms) != 1:
                continue
            s0 = next(iter(syms))
            ev0 = offs[s0]
            arr = e.arr
            rng = arr.dom.get("IDXR")
            if rng is None:
                continue
            used.add(s0)
            key = "%s.%s: %s" % (c.name, mname, " ".join(e.text.split()))
            w = where(c, e.lineno)
            if ev0.adv is None:
                if ev0.d.get("overwritten"):
                    chk.violation("O1", key, w, "offset '%s' is overwritten in the loop with %s instead of being accumulated: from the third surface on the blocks overlap" % (ev0.name, ev0.d.get("endval")))
                else:
                    chk.undecided("O1", key, w, "offset not advanced by a path-independent amount")
                continue
            lo = rng[0]
            n = sp.expand(rng[1] - rng[0])
            if lo is not None and lo != 0 and ev0.init == 0 and _mesh_sign(lo) in ("pos", "nonneg"):
                # indices offset + [lo, hi) with lo >= 0: the block stays inside this
                # surface's share of the axis only if hi <= advance
                over = _mesh_sign(sp.expand(rng[1] - ev0.adv))
                if over == "pos":
                    chk.violation("O1", key, w, "index block %s + [%s, %s) reaches beyond the per-iteration advance %s of %s for admissible mesh sizes under %s: it runs into the next surface's block" % (ev0.name, lo, rng[1], ev0.adv, ev0.name, sig_txt(run.sigma)))
                elif over in ("zero", "nonpos", "neg"):
                    chk.ok("O1", key, w, "index block offset + [%s, %s) within advance %s" % (lo, rng[1], ev0.adv))
                else:
                    chk.undecided("O1", key, w, "index block offset + [%s, %s) not comparable with advance %s" % (lo, rng[1], ev0.adv))
                continue
            if lo is None or lo != 0:
                continue
            if sp.expand(n - ev0.adv) == 0 and ev0.init == 0:
                chk.ok("O1", key, w, "index block arange(%s) + offset; advance == %s" % (n, ev0.adv))
            else:
                chk.violation("O1", key, w, "index block arange(%s) + %s but %s advances by %s per iteration (init %s) under %s: blocks overlap or leave gaps" % (n, ev0.name, ev0.name, ev0.adv, ev0.init, sig_txt(run.sigma)))
    # offsets overwritten with a per-element value (used as index base in any form)
    for sym, ev in offs.items():
        if ev.d.get("overwritten") and ev.loop_kind in ("cfglist",) and ev.d.get("endval") is not None and ev.d.get("endval").free_symbols:
            chk.violation("O1", "%s.%s: offset %s" % (c.name, mname, ev.name), where(c, ev.lineno), "running offset '%s' (initialised before the loop, read in the body) is overwritten with the per-surface value %s instead of being accumulated: it holds the size of the previous surface only, so blocks overlap from the third surface on" % (ev.name, ev.d.get("endval")))
    # offsets that address blocks but are never advanced
    for s in used:
        ev = offs[s]
        if ev.adv is not None and ev.adv == 0:
            chk.violation("O1", "%s.%s: offset %s" % (c.name, mname, ev.name), where(c, ev.lineno), "offset %s addresses per-surface blocks but is not advanced in the loop" % ev.name)


def o2(chk, repo, models, rule="O2", methods=None, min_decided=20, text="a value derived from the element of one loop over surfaces/sections is not used in a later loop over the same list without being re-derived"):
    chk.rule(rule, text, min_decided=min_decided)
    for m in models:
        c = m.cls
        if c.name in POSTPROCESSING:
            continue
        for mname, runs in m.runs.items():
            if methods is not None and mname not in methods:
                continue
            stale = {}
            loops_seen = set()
            for run in runs:
                for e in run.events:
                    if e.kind == "stale_elem":
                        stale.setdefault((e.name, e.loop_b), e)
                    for l in e.loops:
                        if l.kind in ("cfglist",) or (l.kind == "range" and "len(" in (l.cx or "")):
                            loops_seen.add(l.node.lineno)
            for (nm, lb), e in stale.items():
                chk.violation(
                    rule,
                    "%s.%s: '%s' in loop at line %d" % (c.name, mname, nm, lb),
                    where(c, e.lineno),
                    "'%s' (= %s) was derived from the element of the loop at line %d (assigned at line %d) and is used in the later loop over the same list at line %d without being re-derived: every iteration sees the last element's value" % (nm, e.val.sym if e.val.sym is not None else e.val.cx, e.loop_a, e.assigned_line, lb),
                )
            for ln in sorted(loops_seen):
                if not any(lb == ln for (_, lb) in stale):
                    chk.ok(rule, "%s.%s: loop at line %d" % (c.name, mname, ln), where(c, ln), "no stale per-element value")


def o7(chk, repo):
    """The MPhys wrapper maps the same flight-condition inputs onto MPhys names whichever solver it wraps."""
    from ..groups import runs_with_policy
    from ..wiring import child_sigma, class_iface

    chk.rule("O7", "in the MPhys wrapper groups, the inputs of a wrapped native subsystem that are promoted under another (MPhys) name are the same in every option valuation of the wrapper, up to inputs the wrapped class does not have in that valuation: if 'beta' is mapped to the MPhys yaw angle for the compressible solver it is for the incompressible one too.  Otherwise the input keeps its own name, nothing drives it, and the wrapper silently analyses a different flight condition from the native groups", min_decided=2)
    for gname in ("AeroSolverGroup", "AeroFuncsGroup"):
        g = [c for c in repo.groups() if c.name == gname and "/mphys/" in c.mod.rel]
        if not g:
            chk.undecided("O7", gname, "openaerostruct/mphys", "class not found")
            continue
        g = g[0]
        try:
            runs = runs_with_policy(repo, g, lambda a_: None)
        except Exception as ex:
            chk.undecided("O7", gname, g.where, "setup not enumerated: %s" % ex)
            continue
        per = {}  # subsystem name -> [(run, renamed set or None, iface inputs)]
        for gr in runs:
            for s_ in gr.subsystems:
                if s_.owner != "self":
                    continue
                ren = set()
                ok = True
                for kw in ("promotes", "promotes_inputs"):
                    v = s_.kwargs.get(kw)
                    if v is None:
                        continue
                    if v.items is None:
                        ok = False
                        continue
                    for x in v.items:
                        if x.kind == "tuple" and x.items is not None and len(x.items) == 2 and x.items[0].kind == "str" and x.items[0].tmpl is not None:
                            ren.add(x.items[0].tmpl)
                        elif x.kind == "str":
                            pass
                        else:
                            ok = False
                iface = class_iface(repo, s_.cls, child_sigma(gr.sigma, s_)) if s_.cls is not None else None
                per.setdefault((s_.name or "?").replace("[0]", "[i]"), []).append((gr, ren if ok else None, iface))
        for sname, lst in sorted(per.items()):
            key = "%s %s: renamed inputs agree across valuations" % (gname, sname)
            if any(r is None for _, r, _ in lst):
                chk.undecided("O7", key, g.where, "promotes list not resolved")
                continue
            bad = None
            for gr_a, ren_a, _ in lst:
                for gr_b, ren_b, if_b in lst:
                    if gr_a is gr_b:
                        continue
                    for var in sorted(ren_a - ren_b):
                        if if_b is not None and if_b.known and var in if_b.inputs:
                            bad = bad or (var, gr_a, gr_b)
            if bad:
                chk.violation("O7", key, g.where, "input '%s' of '%s' is promoted under its MPhys name under %s but not under %s, where the wrapped subsystem has that input too: there it keeps its own name and nothing drives it" % (bad[0], sname, sig_txt(bad[1].sigma), sig_txt(bad[2].sigma)))
            elif len(lst) < 2:
                chk.info("O7", key, g.where, "single valuation")
            else:
                chk.ok("O7", key, g.where, "renamed inputs %s in all %d valuations (up to inputs absent from the wrapped class)" % (sorted(set.union(*[r for _, r, _ in lst])), len(lst)))


def o8(chk, repo, models):
    """The (de)multiplexers are pure re-indexings: every output entry is assigned on every evaluation (= C03-R7)."""
    from .c03 import r7

    r7(chk, repo, models, rule="O8", only=("MuxSurfaceForces", "DemuxSurfaceMesh"), min_decided=1)


def run(chk, repo, tier):
    o7(chk, repo)
    models = all_models(repo, chk)
    o8(chk, repo, models)
    o1(chk, repo, models)
    o2(chk, repo, models)
    o2b(chk, repo, models)
    o5(chk, repo, models)
    o6(chk, repo, models)
    keys_rule(chk, repo)


# --------------------------------------------------------------------------- O5
import ast as _ast

from ..load import unparse as _unparse


def _acc_updates(loop):
    """accumulators of a loop body: names updated by x += e / x -= e / x = x + e."""
    acc = {}
    for n in _ast.walk(_ast.Module(body=loop.body, type_ignores=[])):
        if isinstance(n, _ast.AugAssign) and isinstance(n.target, _ast.Name) and isinstance(n.op, (_ast.Add, _ast.Sub)):
            acc.setdefault(n.target.id, []).append(n)
        elif isinstance(n, _ast.Assign) and len(n.targets) == 1 and isinstance(n.targets[0], _ast.Name) and isinstance(n.value, _ast.BinOp) and isinstance(n.value.op, (_ast.Add, _ast.Sub)):
            nm = n.targets[0].id
            if isinstance(n.value.left, _ast.Name) and n.value.left.id == nm:
                acc.setdefault(nm, []).append(n)
    return acc


def _data_names(f, loop):
    """names of the method that (transitively) hold input / output data: bound from an expression that reads
    inputs[...] / outputs[...] or another such name (flow-insensitive over the whole method: an over-approximation)."""
    data = set()
    asg = []
    for n in _ast.walk(f.node):
        if isinstance(n, _ast.Assign):
            tg = [x.id for t in n.targets for x in _ast.walk(t) if isinstance(x, _ast.Name) and isinstance(x.ctx, _ast.Store)]
            asg.append((tg, n.value))
        elif isinstance(n, _ast.AugAssign) and isinstance(n.target, _ast.Name):
            asg.append(([n.target.id], n.value))
    changed = True
    while changed:
        changed = False
        for tg, v in asg:
            dep = False
            for x in _ast.walk(v):
                if isinstance(x, _ast.Subscript) and isinstance(x.value, _ast.Name) and x.value.id in ("inputs", "outputs"):
                    dep = True
                elif isinstance(x, _ast.Name) and x.id in data:
                    dep = True
            if dep:
                for t in tg:
                    if t not in data:
                        data.add(t)
                        changed = True
    return data


def _o9_one(chk, c, mname, f, loop, nm, ups):
    """O9: a running total of input data over the surface list is not read inside the loop."""
    data = _data_names(f, loop)

    def is_data(e):
        for x in _ast.walk(e):
            if isinstance(x, _ast.Subscript) and isinstance(x.value, _ast.Name) and x.value.id in ("inputs", "outputs"):
                return True
            if isinstance(x, _ast.Name) and x.id in data and x.id != nm:
                return True
        return False

    incs = [u.value if isinstance(u, _ast.AugAssign) else u.value.right for u in ups]
    if not any(is_data(e) for e in incs):
        return  # an index / size offset: decided by O1
    key = "%s.%s: data accumulator '%s' (loop at line %d)" % (c.name, mname, nm, loop.lineno)
    reads = []
    for st in _ast.walk(_ast.Module(body=loop.body, type_ignores=[])):
        if not isinstance(st, _ast.stmt) or st in ups or isinstance(st, (_ast.For, _ast.If, _ast.While, _ast.With, _ast.Try)):
            continue
        for x in _ast.walk(st):
            if isinstance(x, _ast.Name) and x.id == nm and isinstance(x.ctx, _ast.Load):
                # element-wise accumulation nm[i] += e reads nm only as the store target
                if isinstance(st, _ast.AugAssign) and isinstance(st.op, (_ast.Add, _ast.Sub)) and any(x is y for y in _ast.walk(st.target)):
                    continue
                reads.append((st.lineno, _unparse(st)[:90]))
                break
    for st in _ast.walk(_ast.Module(body=loop.body, type_ignores=[])):
        if isinstance(st, (_ast.If, _ast.While)):
            for x in _ast.walk(st.test):
                if isinstance(x, _ast.Name) and x.id == nm:
                    reads.append((st.lineno, "if " + _unparse(st.test)[:80]))
                    break
    if reads:
        ln, txt = reads[0]
        chk.violation("O9", key, where(c, ln), "'%s' is bound before the loop over the surface list, incremented inside it by input data (%s) and read inside the loop by '%s': what is computed for one surface depends on the surfaces listed before it" % (nm, _unparse(incs[0])[:60], txt))
    else:
        chk.ok("O9", key, where(c, loop.lineno), "read only after the loop")


def o5(chk, repo, models):
    """Order independence of accumulations over the surface list."""
    chk.rule("O9", "a running total of input / output data over the surface list (bound before the loop, x += data term) is read only after the loop: inside the loop it would make the values computed for one surface depend on the surfaces listed before it (integer index offsets are not data and are decided by O1)", min_decided=9)
    chk.rule("O5", "a quantity accumulated over the surface list (x += term_i / x = x + term_i) is only ever updated by such commutative additions inside the loop: no element store, scaling or overwrite of the running total (the result must not depend on the order of the surfaces)", min_decided=10)
    seen = set()
    for m in models:
        c = m.cls
        if c.name in POSTPROCESSING:
            continue
        for mname, f in c.methods.items():
            if mname in ("setup", "initialize", "__init__"):
                continue
            for loop in _ast.walk(f.node):
                if not isinstance(loop, _ast.For):
                    continue
                it = _unparse(loop.iter)
                if "surfaces" not in it and "sections" not in it:
                    continue
                acc = _acc_updates(loop)
                # ---- persistent storage accumulated over the surfaces: partials[k] += e / outputs[k] -= e
                sacc = {}
                for n in _ast.walk(_ast.Module(body=loop.body, type_ignores=[])):
                    if isinstance(n, _ast.AugAssign) and isinstance(n.op, (_ast.Add, _ast.Sub)) and isinstance(n.target, _ast.Subscript) and isinstance(n.target.value, _ast.Name) and n.target.value.id in ("partials", "outputs", "J", "residuals"):
                        sacc.setdefault(_unparse(n.target), []).append(n)
                for tkey, ups in sacc.items():
                    # only totals over the list: the key must not contain the per-surface name
                    if any(isinstance(x_, _ast.Name) and x_.id not in ("partials", "outputs", "J", "residuals") for x_ in _ast.walk(ups[0].target.slice)):
                        continue
                    key = "%s.%s: accumulated storage %s (loop at line %d)" % (c.name, mname, tkey, loop.lineno)
                    bad = []
                    for n in _ast.walk(_ast.Module(body=loop.body, type_ignores=[])):
                        tg = []
                        if isinstance(n, _ast.Assign):
                            tg = [(t, "=") for t in n.targets]
                        elif isinstance(n, _ast.AugAssign):
                            tg = [(n.target, type(n.op).__name__)]
                        for t, op in tg:
                            base, sub = t, False
                            while isinstance(base, _ast.Subscript) and _unparse(base) != tkey:
                                base = base.value
                                sub = True
                            if not (isinstance(base, _ast.Subscript) and _unparse(base) == tkey):
                                continue
                            if n in ups or (sub and op in ("Add", "Sub")):
                                continue
                            bad.append((n.lineno, _unparse(n)[:80]))
                    if bad:
                        chk.violation("O5", key, where(c, bad[0][0]), "the total %s accumulated over the surface list is also modified by '%s' inside the loop: the contributions of the surfaces listed earlier are overwritten / rescaled, so the result depends on the order of the surfaces" % (tkey, bad[0][1]))
                    else:
                        chk.ok("O5", key, where(c, loop.lineno), "only commutative additions")
                if not acc:
                    continue
                # accumulators must be bound before the loop (running totals), not per-iteration temporaries
                bound_before = set()
                for n in _ast.walk(f.node):
                    if isinstance(n, _ast.Assign) and n.lineno < loop.lineno:
                        for t in n.targets:
                            if isinstance(t, _ast.Name):
                                bound_before.add(t.id)
                for nm, ups in acc.items():
                    if nm not in bound_before:
                        continue
                    key = "%s.%s: accumulator '%s' (loop at line %d)" % (c.name, mname, nm, loop.lineno)
                    bad = []
                    for n in _ast.walk(_ast.Module(body=loop.body, type_ignores=[])):
                        tg = []
                        if isinstance(n, _ast.Assign):
                            tg = [(t, "=") for t in n.targets]
                        elif isinstance(n, _ast.AugAssign):
                            tg = [(n.target, type(n.op).__name__)]
                        for t, op in tg:
                            base = t
                            sub = False
                            while isinstance(base, (_ast.Subscript, _ast.Attribute)):
                                base = base.value
                                sub = True
                            if not (isinstance(base, _ast.Name) and base.id == nm):
                                continue
                            if n in ups:
                                continue
                            if sub and op in ("Add", "Sub"):
                                continue  # element-wise accumulation is still commutative
                            bad.append((n.lineno, _unparse(n)[:80], op))
                    _o9_one(chk, c, mname, f, loop, nm, ups)
                    if bad:
                        ln, txt, op = bad[0]
                        chk.violation("O5", key, where(c, ln), "the running total '%s' over the surface list is also modified by '%s' inside the loop: contributions of surfaces listed earlier are overwritten / rescaled, so the result depends on the order of the surfaces" % (nm, txt))
                    else:
                        chk.ok("O5", key, where(c, loop.lineno), "only commutative additions")


def o2b(chk, repo, models):
    """Per-surface values cached in a scalar attribute."""
    chk.rule("O2b", "a value derived from the element of a loop over surfaces is not cached in a scalar instance attribute and then used for every surface elsewhere", min_decided=20)
    for m in models:
        c = m.cls
        if c.name in POSTPROCESSING:
            continue
        cached = {}
        for mname, runs in m.runs.items():
            for run in runs:
                for e in run.events:
                    if e.kind == "attr_store" and e.val is not None and any(l.kind == "cfglist" for l in e.loops):
                        v = e.val
                        prov = (v.cx and ("surfaces[" in v.cx or "sections[" in v.cx)) or (v.sym is not None and any(x.name.endswith(("_i", "_0", "_si", "_s0")) for x in v.sym.free_symbols))
                        if prov and v.kind not in ("dict", "cfgdict", "cfglist", "list"):
                            cached.setdefault(e.attr, (mname, e))
        reads = {}
        for mname, runs in m.runs.items():
            for run in runs:
                for e in run.events:
                    if e.kind == "attr_read" and e.attr in cached and any(l.kind == "cfglist" for l in e.loops):
                        src_m, src_e = cached[e.attr]
                        same_iter = src_m == mname and any(l1.node is l2.node for l1 in src_e.loops for l2 in e.loops)
                        if not same_iter:
                            reads.setdefault(e.attr, (mname, e))
        for attr, (mname, e) in cached.items():
            key = "%s: self.%s" % (c.name, attr)
            if attr in reads:
                rm, re_ = reads[attr]
                chk.violation("O2b", key, where(c, re_.lineno), "self.%s is assigned inside the loop over surfaces in %s (line %d) from the per-surface value %s and read inside the surface loop of %s: every surface sees the last surface's value" % (attr, mname, e.lineno, e.val.cx or e.val.sym, rm))
            else:
                chk.ok("O2b", key, where(c, e.lineno), "per-surface value not reused across surfaces")
        if not cached:
            chk.ok("O2b", "%s: no per-surface scalar attribute" % c.name, c.where, "")


def keys_rule(chk, repo, rule="O4", only_keys=None):
    """Writer/reader agreement of the per-surface configuration keys copied for
    multi-section surfaces."""
    from ..groups import group_model
    from ..load import const_fold
    from ..model import component_model
    from .c02 import _classes_inside

    chk.rule(rule, "every surface-dictionary key read by the aerodynamic subsystems of AeroPoint is in the list of keys copied into the aero surface dictionary built for multi-section surfaces (writer and reader tables agree)", min_decided=5 if only_keys is None else 1)
    g = repo.cls("openaerostruct/aerodynamics/aero_groups.py", "AeroPoint")
    f = g.methods["setup"]
    tk = None
    tk_line = f.node.lineno
    for n in _ast.walk(f.node):
        if isinstance(n, _ast.Assign) and any(isinstance(t, _ast.Name) and t.id == "target_keys" for t in n.targets):
            try:
                tk = set(const_fold(n.value))
                tk_line = n.lineno
            except ValueError:
                tk = None
    if tk is None:
        chk.undecided(rule, "AeroPoint.setup: target_keys", g.where, "list of copied keys not found")
        return
    gm = group_model(repo, g)
    inside = set()
    for gr in gm.runs:
        for o in gr.owners():
            inside |= _classes_inside(repo, gr, o)
    byname = {}
    for c in repo.components() + repo.groups():
        byname.setdefault(c.name, c)
    readers = {}
    for n in sorted(inside):
        c = byname.get(n)
        if c is None:
            continue
        evs = []
        if c.kind == "group":
            for r in group_model(repo, c).all_runs:
                evs += r.events
        else:
            for rs in component_model(repo, c).runs.values():
                for r in rs:
                    evs += r.events
        for e in evs:
            if e.kind == "cfg_read" and ("surface" in e.src or "section" in e.src):
                readers.setdefault(e.key, set()).add(n)
    for k in sorted(readers):
        if only_keys is not None and k not in only_keys:
            continue
        key = "AeroPoint.setup: target_keys has '%s'" % k
        w = "%s:%d" % (g.mod.rel, tk_line)
        if k in tk:
            chk.ok(rule, key, w, "read by %s" % sorted(readers[k])[:4])
        else:
            chk.violation(rule, key, w, "surface key '%s' is read by %s but is not copied into the aero surface dictionary of a multi-section surface: the option silently falls back to its default there" % (k, sorted(readers[k])[:4]))


# --------------------------------------------------------------------------- O6
def o6(chk, repo, models):
    """A total that is initialised before the surface loop and used after it is
    accumulated in the loop, not overwritten (else only the last surface counts)."""
    chk.rule("O6", "a local or attribute that is initialised before a loop over the surface list, modified inside it and read after it is modified only by accumulation (x += e, x = x + e, element-wise +=) or under an explicit first-iteration guard: a plain overwrite would make the result the last surface's contribution only", min_decided=5)
    for m in models:
        c = m.cls
        if c.name in POSTPROCESSING:
            continue
        for mname, f in c.methods.items():
            if mname in ("setup", "initialize", "__init__"):
                continue
            for loop in _ast.walk(f.node):
                if not isinstance(loop, _ast.For):
                    continue
                it = _unparse(loop.iter)
                if "surfaces" not in it and "sections" not in it:
                    continue
                end = getattr(loop, "end_lineno", loop.lineno)
                before, after_reads = set(), set()
                for n in _ast.walk(f.node):
                    if isinstance(n, _ast.Assign) and n.lineno < loop.lineno:
                        for t in n.targets:
                            if isinstance(t, _ast.Name):
                                before.add(t.id)
                    if isinstance(n, _ast.Name) and isinstance(n.ctx, _ast.Load) and n.lineno > end:
                        after_reads.add(n.id)
                cand = before & after_reads
                if not cand:
                    continue
                acc = _acc_updates(loop)

                def visit(stmts, guarded):
                    for st in stmts:
                        if isinstance(st, _ast.If):
                            t = _unparse(st.test).replace(" ", "")
                            g = guarded or t.endswith("==0") or t.startswith("0==")
                            yield from visit(st.body, g)
                            yield from visit(st.orelse, guarded)
                        elif isinstance(st, (_ast.For, _ast.While, _ast.With)):
                            yield from visit(st.body, guarded)
                        else:
                            yield st, guarded

                mods = {}
                for st, guarded in visit(loop.body, False):
                    if isinstance(st, _ast.Assign):
                        for t in st.targets:
                            for tt in (t.elts if isinstance(t, (_ast.Tuple, _ast.List)) else [t]):
                                if isinstance(tt, _ast.Name) and tt.id in cand:
                                    mods.setdefault(tt.id, []).append((st, guarded, "="))
                    elif isinstance(st, _ast.AugAssign) and isinstance(st.target, _ast.Name) and st.target.id in cand:
                        mods.setdefault(st.target.id, []).append((st, guarded, type(st.op).__name__))
                for nm, lst in sorted(mods.items()):
                    key = "%s.%s: '%s' across the loop at line %d" % (c.name, mname, nm, loop.lineno)
                    def self_ref(st_):
                        # the new value is built from the old one (x = f(x, ...)): an accumulation in the wide sense
                        return isinstance(st_, _ast.Assign) and any(isinstance(x_, _ast.Name) and x_.id == nm for x_ in _ast.walk(st_.value))

                    bad = [(st, op) for st, guarded, op in lst if not guarded and st not in acc.get(nm, []) and not (op in ("Add", "Sub")) and not self_ref(st)]
                    if bad:
                        st, op = bad[0]
                        chk.violation("O6", key, where(c, st.lineno), "'%s' is initialised before the loop over the surfaces and used after it, but inside the loop it is overwritten by '%s' instead of being accumulated: only the last surface contributes" % (nm, _unparse(st)[:80]))
                    else:
                        chk.ok("O6", key, where(c, loop.lineno), "accumulated")
