"""C20 -- invalid set-ups rejected loudly; user data untouched.

L1 guarded raises (must-pass-through), L2 key-validation warnings, L3 user
arrays never written (alias / effect analysis), L4 reproducibility.
"""
import ast

from ..absint import Interp, enumerate_runs
from ..absval import Val
from ..groups import all_group_models
from ..load import AnalysisError, unparse
from .c03 import r3
from .common import POSTPROCESSING, all_models, sig_txt, where

GU = "openaerostruct/geometry/utils.py"
GG = "openaerostruct/geometry/geometry_group.py"
CSD = "openaerostruct/utils/check_surface_dict.py"

KEY_CHECKING_GROUPS = {
    "Geometry": "geometry entry point taking the user's surface dict",
    "MultiSecGeometry": "multi-section geometry entry point",
    "AerostructGeometry": "aerostructural geometry entry point",
}


ARRAY_KEYS = {
    "mesh", "meshes", "twist_cp", "chord_cp", "xshear_cp", "yshear_cp", "zshear_cp", "thickness_cp", "radius_cp",
    "t_over_c_cp", "spar_thickness_cp", "skin_thickness_cp", "data_x_upper", "data_x_lower", "data_y_upper",
    "data_y_lower", "left_mesh", "right_mesh", "span", "taper", "sweep", "ny", "?",
}


def is_array_key(obj):
    return obj[2] in ARRAY_KEYS or obj[1] == "arg"


def cfg_targets(e):
    """user-owned arrays a store event may write into (must- and may-aliases)."""
    out = set()
    if isinstance(e.obj, tuple) and e.obj and e.obj[0] == "cfg":
        out.add(e.obj)
    for ob in e.d.get("mayc") or ():
        out.add(ob)
    return out


def ends_in_raise(body):
    return bool(body) and isinstance(body[-1], ast.Raise)


def is_parity_test(test, var):
    """True if ``test`` holds exactly when ``var`` is even (accepted spellings)."""
    s = unparse(test).replace(" ", "")
    v = var
    return s in (
        "not%s%%2" % v,
        "not(%s%%2)" % v,
        "%s%%2==0" % v,
        "%s%%2!=1" % v,
        "(%s&1)==0" % v,
        "%s&1==0" % v,
        "not%s&1" % v,
        "%s%%2<1" % v,
        "0==%s%%2" % v,
    )


def _calls_in(node):
    return [unparse(n.func) for n in ast.walk(node) if isinstance(n, ast.Call)]


def l1(chk, repo):
    chk.rule("L1", "each documented invalid set-up reaches a raise: even num_y before any mesh generation, unknown wing_type, unknown fem_model_type at every group-level dispatch, only one wingbox thickness distribution, the six build_sections length checks", min_decided=14)
    gm = repo.func(GU, "generate_mesh")
    body = gm.node.body
    # (a) parity
    par = None
    first_gen = None
    for i, st in enumerate(body):
        if isinstance(st, ast.If) and ends_in_raise(st.body) and not st.orelse:
            for var in ("num_y", "surf_dict['num_y']", 'surf_dict["num_y"]'):
                if is_parity_test(st.test, var):
                    par = (i, st)
        if first_gen is None and any(c.startswith("gen_") and c.endswith("_mesh") for c in _calls_in(st)):
            first_gen = i
    if par is None:
        # is there any test on num_y parity at all?
        cand = [st for st in ast.walk(gm.node) if isinstance(st, ast.If) and "num_y" in unparse(st.test) and "%" in unparse(st.test)]
        if cand:
            chk.violation("L1", "generate_mesh: even num_y", "%s:%d" % (gm.mod.rel, cand[0].lineno), "the num_y parity test '%s' does not reject exactly the even values with a raise" % unparse(cand[0].test))
        else:
            chk.violation("L1", "generate_mesh: even num_y", gm.where, "no parity check of num_y ends in a raise: an even number of spanwise nodes silently produces a mesh without a centre node")
    elif first_gen is not None and par[0] > first_gen:
        chk.violation("L1", "generate_mesh: even num_y", "%s:%d" % (gm.mod.rel, par[1].lineno), "the parity check comes after mesh generation")
    else:
        chk.ok("L1", "generate_mesh: even num_y", "%s:%d" % (gm.mod.rel, par[1].lineno), "'%s' -> raise, before mesh generation" % unparse(par[1].test))
    # (b) wing_type dispatch
    found = False
    for st in body:
        if isinstance(st, ast.If) and "wing_type" in unparse(st.test) and "rect" in unparse(st.test):
            found = True
            chain_end = st
            n_arms = 1
            while len(chain_end.orelse) == 1 and isinstance(chain_end.orelse[0], ast.If):
                chain_end = chain_end.orelse[0]
                n_arms += 1
            if ends_in_raise(chain_end.orelse):
                chk.ok("L1", "generate_mesh: unknown wing_type", "%s:%d" % (gm.mod.rel, st.lineno), "if/elif chain of %d arms ends in raise" % n_arms)
            else:
                chk.violation("L1", "generate_mesh: unknown wing_type", "%s:%d" % (gm.mod.rel, st.lineno), "the wing_type dispatch has no raising else arm: an unknown wing type falls through")
    if not found:
        chk.violation("L1", "generate_mesh: unknown wing_type", gm.where, "wing_type dispatch not found")
    # (c) fem_model_type dispatch sites in groups
    n_sites = 0
    for g in repo.groups():
        f = g.methods.get("setup")
        if f is None:
            continue
        for st in ast.walk(f.node):
            if not isinstance(st, ast.If):
                continue
            lits = set()
            chain_end = st
            tests = [st.test]
            while len(chain_end.orelse) == 1 and isinstance(chain_end.orelse[0], ast.If):
                chain_end = chain_end.orelse[0]
                tests.append(chain_end.test)
            for t in tests:
                if "fem_model_type" in unparse(t):
                    for c in ast.walk(t):
                        if isinstance(c, ast.Constant) and c.value in ("tube", "wingbox"):
                            lits.add(c.value)
            if lits == {"tube", "wingbox"} and "fem_model_type" in unparse(st.test):
                n_sites += 1
                key = "%s.setup: fem_model_type dispatch at '%s'" % (g.name, " ".join(unparse(st.test).split()))
                if ends_in_raise(chain_end.orelse):
                    chk.ok("L1", key, "%s:%d" % (g.mod.rel, st.lineno), "else arm raises")
                else:
                    chk.violation("L1", key, "%s:%d" % (g.mod.rel, st.lineno), "the structural-model dispatch has no raising else arm: an unknown fem_model_type builds a group without a structural model")
    if n_sites < 4:
        chk.error("only %d group-level fem_model_type dispatch sites found (4 confirmed on the pinned tree)" % n_sites)
    # (d) one of the two wingbox thickness distributions
    n_th = 0
    for g in repo.groups():
        f = g.methods.get("setup")
        if f is None:
            continue
        for st in ast.walk(f.node):
            if isinstance(st, ast.If) and isinstance(st.test, ast.BoolOp) and isinstance(st.test.op, ast.And):
                s = unparse(st.test)
                if "skin_thickness_cp" in s and "spar_thickness_cp" in s:
                    n_th += 1
                    key = "%s.setup: one wingbox thickness distribution" % g.name
                    oe = st.orelse
                    if len(oe) == 1 and isinstance(oe[0], ast.If) and isinstance(oe[0].test, ast.BoolOp) and isinstance(oe[0].test.op, ast.Or) and "skin_thickness_cp" in unparse(oe[0].test) and "spar_thickness_cp" in unparse(oe[0].test) and ends_in_raise(oe[0].body):
                        chk.ok("L1", key, "%s:%d" % (g.mod.rel, st.lineno), "elif (skin or spar) -> raise")
                    else:
                        chk.violation("L1", key, "%s:%d" % (g.mod.rel, st.lineno), "giving only one of skin/spar thickness distributions is not rejected")
    if n_th < 2:
        chk.error("only %d wingbox-thickness consistency sites found (2 confirmed)" % n_th)
    # (e) build_sections
    bs = repo.func(GG, "build_sections")
    want = {"ny", "taper", "span", "sweep", "meshes", "sec_name"}
    got = {}
    for st in ast.walk(bs.node):
        if isinstance(st, ast.If) and isinstance(st.test, ast.Compare) and len(st.test.ops) == 1:
            l = unparse(st.test.left)
            r = unparse(st.test.comparators[0])
            for k in want:
                if l.replace('"', "'") == "len(surface['%s'])" % k and r == "num_sections":
                    got[k] = (st, isinstance(st.test.ops[0], ast.NotEq) and ends_in_raise(st.body))
    for k in sorted(want):
        key = "build_sections: len(surface['%s']) != num_sections" % k
        if k not in got:
            chk.violation("L1", key, bs.where, "no length check for '%s'" % k)
        elif got[k][1]:
            chk.ok("L1", key, "%s:%d" % (bs.mod.rel, got[k][0].lineno), "!= -> raise")
        else:
            chk.violation("L1", key, "%s:%d" % (bs.mod.rel, got[k][0].lineno), "the check '%s' does not reject every wrong length with a raise" % unparse(got[k][0].test))


def l2(chk, repo):
    chk.rule("L2", "every geometry entry group validates the user's surface dict keys, and the validators warn on unknown keys", min_decided=5)
    for gmod in all_group_models(repo, chk):
        g = gmod.cls
        if g.name not in KEY_CHECKING_GROUPS:
            continue
        called = False
        for r in gmod.all_runs:
            for e in r.events:
                if e.kind == "call" and getattr(e.d.get("callee"), "name", None) == "check_surface_dict_keys":
                    a = e.args[0] if e.args else None
                    if a is not None and a.kind == "cfgdict":
                        called = True
        if called:
            chk.ok("L2", "%s.setup: key validation" % g.name, g.where, "check_surface_dict_keys(surface) called")
        else:
            chk.violation("L2", "%s.setup: key validation" % g.name, g.where, "%s no longer validates the surface dict keys (%s): a misspelled key is silently ignored" % (g.name, KEY_CHECKING_GROUPS[g.name]))
    for rel, fn in ((CSD, "check_surface_dict_keys"), (GU, "generate_mesh")):
        f = repo.func(rel, fn)
        ok = False
        for st in ast.walk(f.node):
            if isinstance(st, ast.For):
                for s2 in ast.walk(st):
                    if isinstance(s2, ast.If) and isinstance(s2.test, ast.Compare) and isinstance(s2.test.ops[0], ast.NotIn) and unparse(s2.test.left) == unparse(st.target):
                        if any("warn" in c for c in _calls_in(s2)):
                            ok = True
        if ok:
            chk.ok("L2", "%s: warns on unknown keys" % fn, f.where, "for key in ...: if key not in <known>: warnings.warn")
        else:
            chk.violation("L2", "%s: warns on unknown keys" % fn, f.where, "no warning for keys outside the implemented list")


def l3(chk, repo, models):
    chk.rule("L3", "no store, augmented store, in-place method or out= reaches an alias of a user array (surface[...] / options[...] values) or of a mesh argument of the documented helpers that return derived meshes", min_decided=150)
    # components
    for m in models:
        c = m.cls
        if c.name in POSTPROCESSING:
            continue
        for mname, runs in m.runs.items():
            bad = {}
            for run in runs:
                for e in run.events:
                    if e.kind == "store":
                        for ob in cfg_targets(e):
                            bad.setdefault((e.lineno, ob), (e, run))
                    if e.kind == "cfg_mutation" and e.method != "__setitem__":
                        bad.setdefault((e.lineno, ("cfg", e.src, e.method)), (e, run))
            key = "%s.%s" % (c.name, mname)
            if bad:
                for (ln, obj), (e, run) in bad.items():
                    if not is_array_key(obj):
                        chk.info("L3", "%s: in-place %s on %s[%r]" % (key, e.d.get("op", e.d.get("method")), obj[1], obj[2]), where(c, ln), "in-place operator on a dictionary value documented as a Python scalar (rebinds the local, the dictionary is unchanged)")
                        continue
                    chk.violation("L3", "%s: writes %s[%r]" % (key, obj[1], obj[2]), where(c, ln), "%s writes (%s) into the user's %s[%r] array (alias of the surface dictionary value) under %s" % (mname, e.d.get("op", e.d.get("method")), obj[1], obj[2], sig_txt(run.sigma)))
                if all(not is_array_key(o) for (_, o) in bad):
                    chk.ok("L3", key, c.where, "no write through an alias of a configuration array")
            else:
                chk.ok("L3", key, c.where, "no write through an alias of a configuration array")
    # groups
    for gmod in all_group_models(repo):
        g = gmod.cls
        bad = {}
        for r in gmod.all_runs:
            for e in r.events:
                if e.kind == "store":
                    for ob in cfg_targets(e):
                        bad.setdefault((e.lineno, ob), e)
        key = "%s.setup" % g.name
        if bad:
            for (ln, obj), e in bad.items():
                chk.violation("L3", "%s: writes %s[%r]" % (key, obj[1], obj[2]), where(g, ln), "group setup writes into the user's %s[%r]" % (obj[1], obj[2]))
        else:
            chk.ok("L3", key, g.where, "no write through an alias of a configuration array")
    # helper functions that take user meshes / dicts
    for rel, fn, params in (
        (GU, "getFullMesh", ("left_mesh", "right_mesh")),
        (GU, "generate_mesh", ("input_dict",)),
        ("openaerostruct/geometry/geometry_unification.py", "unify_mesh", ("sections",)),
        ("openaerostruct/utils/interpolation.py", "get_normalized_span_coords", ("surface",)),
        ("openaerostruct/structures/utils.py", "radii", ("mesh",)),
        (GG, "build_sections", ("surface",)),
    ):
        try:
            f = repo.func(rel, fn)
        except AnalysisError:
            chk.error("helper %s not found in %s" % (fn, rel))
            continue
        from ..absval import NONE

        runs = []
        failed = None
        # array arguments are supplied one at a time (the others None), as the
        # documented call forms do
        arr_params = [p for p in params if p not in ("input_dict", "surface", "sections")]
        for active in (arr_params or [None]):
            bind = {}
            for p in params:
                if p in ("input_dict", "surface"):
                    bind[p] = Val("cfgdict", cfg=True, cx=p, extra=p)
                elif p == "sections":
                    bind[p] = Val("cfglist", cfg=True, cx="sections", extra="sections")
                elif p == active:
                    bind[p] = Val("arr", cfg=True, obj=("cfg", "arg", p), view="whole", cx=p)
                else:
                    bind[p] = NONE
            try:
                runs += enumerate_runs(repo, None, f, lambda s: Interp(repo, None, s), bind=bind, join_fallback=lambda s: Interp(repo, None, s, join_atoms=True))
            except AnalysisError as ex:
                failed = ex
        if failed is not None:
            chk.undecided("L3", "%s()" % fn, f.where, str(failed))
            continue
        chk.analysed_method(fn)
        bad = {}
        for r in runs:
            for e in r.events:
                if e.kind == "store":
                    for ob in cfg_targets(e):
                        bad.setdefault((e.lineno, ob), e)
                if e.kind == "cfg_mutation" and e.src in params:
                    bad.setdefault((e.lineno, ("cfg", e.src, e.method)), e)
        if bad:
            for (ln, obj), e in bad.items():
                chk.violation("L3", "%s(): writes argument %s" % (fn, obj[2]), "%s:%d" % (f.mod.rel, ln), "%s modifies its argument '%s' in place (%s): the caller's array / dict changes" % (fn, obj[2], e.d.get("op", e.d.get("method"))))
        else:
            chk.ok("L3", "%s()" % fn, f.where, "arguments %s are not written" % (params,))


def l3b(chk, repo, models, rule="L3b", only_keys=None):
    """No component / group writes a key of the user's surface dictionaries."""
    chk.rule(rule, "no component or group assigns a key of a user-supplied surface / section dictionary (the dictionaries are read-only inputs; rewriting a key also disables the set-up checks that read it)", min_decided=20 if only_keys is None else 1)
    units = [(m.cls, [r for rs in m.runs.values() for r in rs]) for m in models]
    units += [(gm.cls, gm.all_runs) for gm in all_group_models(repo)]
    for cls, runs in units:
        if cls.name in POSTPROCESSING:
            continue
        bad = {}
        for r in runs:
            for e in r.events:
                if e.kind == "cfg_mutation" and e.src and (e.src.startswith("surface") or e.src.startswith("section")):
                    k = e.d.get("key")
                    if only_keys is not None and k not in only_keys:
                        continue
                    bad.setdefault((e.lineno, e.src, k, e.method), e)
        key = "%s: surface dictionary keys" % cls.name
        if bad:
            for (ln, src, k, meth), e in bad.items():
                chk.violation(rule, "%s: writes %s[%r]" % (cls.name, src, k), where(cls, ln), "%s modifies the user's dictionary %s (key %r, %s): user data is changed and any later check that reads this key sees the rewritten value" % (cls.name, src, k, meth))
        elif only_keys is None:
            chk.ok(rule, key, cls.where, "no key of a user dictionary is written")
    if only_keys is not None:
        chk.ok(rule, "no write to keys %s" % sorted(only_keys), "openaerostruct", "guard keys are never rewritten") if not any(i.rule == rule and i.status == "violation" for i in chk.instances) else None


def l5(chk, repo, rule="L5", keys=None):
    """'value or default' on a numeric configuration value replaces an admissible 0."""
    chk.rule(rule, "a numeric configuration value is never defaulted with '<value> or <default>' (a legitimate 0 / 0.0 would silently be replaced by the default); defaults are taken with a key-presence test or dict.get(key, default)", min_decided=20 if keys is None else 1)
    n_ok = 0
    for mod in repo.modules.values():
        for node in ast.walk(mod.tree):
            if isinstance(node, ast.BoolOp) and isinstance(node.op, ast.Or) and len(node.values) == 2:
                a, b = node.values
                if not (isinstance(b, ast.Constant) and isinstance(b.value, (int, float)) and not isinstance(b.value, bool) and b.value != 0):
                    continue
                sa = unparse(a)
                cfgish = (".get(" in sa or "[" in sa) and ("surface" in sa or "section" in sa or "options" in sa or "input_dict" in sa or "surf_dict" in sa)
                if not cfgish:
                    continue
                if keys is not None and not any(("'%s'" % k) in sa.replace('"', "'") for k in keys):
                    continue
                chk.violation(rule, "%s: %s" % (mod.rel.split("/", 1)[1], " ".join(unparse(node).split())[:70]), "%s:%d" % (mod.rel, node.lineno), "'%s' replaces an admissible value 0 of the configuration entry by %r" % (unparse(node)[:70], b.value))
    for c in repo.components() + repo.groups():
        chk.ok(rule, "%s: no 'value or default' on configuration numbers" % c.name, c.where, "") if not any(i.rule == rule and i.status == "violation" and i.where.split(":")[0] == c.mod.rel for i in chk.instances) else None


def l4(chk, repo, models):
    chk.rule("L4", "no unseeded random source in analysed code", min_decided=2)
    n = 0
    for mod in repo.modules.values():
        for node in ast.walk(mod.tree):
            if isinstance(node, ast.Call):
                s = unparse(node.func)
                if ".random." in s or s.startswith("random.") or s.endswith("default_rng") or s.endswith("RandomState"):
                    n += 1
                    w = "%s:%d" % (mod.rel, node.lineno)
                    key = "%s: %s" % (mod.rel.split("/", 1)[1], " ".join(unparse(node).split())[:60])
                    if (s.endswith("default_rng") or s.endswith("RandomState") or s.endswith("seed")) and node.args and isinstance(node.args[0], ast.Constant) and isinstance(node.args[0].value, int):
                        chk.ok("L4", key, w, "seeded generator")
                    elif s.endswith("default_rng") or s.endswith("RandomState"):
                        chk.violation("L4", key, w, "random generator created without a fixed seed: results differ between runs")
                    else:
                        # a draw from the global numpy / random state
                        chk.violation("L4", key, w, "draw from the global random state: results are not reproducible between runs / independent Problems")
    if n == 0:
        chk.note("no random source found")


def run(chk, repo, tier):
    models = all_models(repo, chk)
    l1(chk, repo)
    l2(chk, repo)
    l3(chk, repo, models)
    l3b(chk, repo, models)
    l5(chk, repo)
    l4(chk, repo, models)
    r3(chk, repo)
    from .c18 import endpoint_finite

    endpoint_finite(chk, repo, "L6")
    # reproducible between runs: nothing of an output is left over from the previous evaluation (= C03-R7)
    from .c03 import r7

    r7(chk, repo, models, rule="L7")
