"""C04 -- half-span symmetric model == full-span model: bookkeeping of the
factor two (X1 extensivity typing, P9 partial agreement, X2 root index)."""
from fractions import Fraction

from ..ext import OBSERVED, ROLE_SCALARS, Ext, T
from ..model import component_model
from .common import NEVER_INSTANTIATED, POSTPROCESSING, norm_name, sig_txt, where


def _sym_of(sigma):
    vals = [v for k, v in sigma.items() if "['symmetry']" in k]
    if not vals:
        return None
    return all(vals) if all(vals) or not any(vals) else "mixed"


def x1(chk, repo, only=None, rule="X1"):
    chk.rule(rule, "extensivity typing of every compute(): under symmetry every observed output (L, D, coefficients, S_ref, structural_mass, cg, M, CM) is intensive or a full-configuration total, nothing that is not a half-span total is doubled, and half and full totals are never added", min_decided=30 if only is None else 3)
    produced = {}
    for c in repo.components(("explicit",)):
        if c.name in POSTPROCESSING or c.name in NEVER_INSTANTIATED:
            continue
        if only is not None and c.name not in only:
            continue
        if "compute" not in c.methods:
            continue
        m = component_model(repo, c, domains=(Ext,))
        for r in m.runs.get("compute", []):
            if r.final is None:
                continue
            d = r.domains["EXT"]
            sym = _sym_of(r.sigma)
            seen = set()
            for rel, ln, qual, msg in d.conflicts:
                kind = msg.split(",")[0][:40]
                key = "%s: %s (line text: %s)" % (qual, "doubling of a non-half-span value" if msg.startswith("doubles") else "mixed extensivity", " ".join(m.cls.mod.line(ln).split())[:70])
                if key in seen:
                    continue
                seen.add(key)
                chk.violation(rule, key, "%s:%d" % (rel, ln), "%s under %s" % (msg, sig_txt(r.sigma)))
            for oid, ob in r.final.heap.items():
                if not (isinstance(oid, tuple) and oid[0] == "out"):
                    continue
                o = oid[1]
                base = o.split(">_")[-1] if ">_" in o else o
                t = ob.dom.get("EXT")
                key = "%s.%s [%s]" % (c.name, norm_name(o), "symmetry" if sym is True else ("full span" if sym is False else ("mixed" if sym == "mixed" else "no symmetry test")))
                if isinstance(t, T) and not t.const and not t.dbl:
                    produced.setdefault(base, set()).add((c.name, t.h, t.f, t.p))
                if base not in OBSERVED:
                    continue
                if t is None:
                    if not d.conflicts:
                        chk.undecided(rule, key, c.where, "type not inferred")
                    continue
                if t.const:
                    chk.ok(rule, key, c.where, "constant")
                    continue
                if t.h != 0 and not t.p:
                    chk.violation(rule, key, c.where, "output '%s' has extensivity type %s under %s: it is (a power of) a half-span total, so the symmetric model reports a different value than the full-span model" % (o, t, sig_txt(r.sigma)))
                else:
                    chk.ok(rule, key, c.where, "type %s" % t)
    # producer / consumer role agreement
    for base, (h, f) in sorted(ROLE_SCALARS.items()):
        for cname, ph, pf, pp in sorted(produced.get(base, ())):
            key = "role of '%s' produced by %s" % (base, cname)
            if (ph, pf) == (Fraction(h), Fraction(f)) and not pp:
                chk.ok(rule, key, "oasa/ext.py", "producer type (%s,%s) == role table" % (ph, pf))
            elif pp:
                continue
            else:
                chk.violation(rule, key, "oasa/ext.py", "consumers treat '%s' as type (%s,%s) but %s produces type (%s,%s): producer and consumers disagree on half/full-span accounting" % (base, h, f, cname, ph, pf))


def p9(chk, repo, rule="P9"):
    chk.rule(rule, "every stored partial carries the extensivity quotient of its output and input (a doubled output has doubled partial blocks, and vice versa)", min_decided=30)
    for c in repo.components(("explicit",)):
        if c.name in POSTPROCESSING or c.name in NEVER_INSTANTIATED:
            continue
        if "compute" not in c.methods or "compute_partials" not in c.methods:
            continue
        m = component_model(repo, c, domains=(Ext,))
        for rc in m.runs.get("compute", []):
            if rc.final is None:
                continue
            sym = _sym_of(rc.sigma)
            if sym == "mixed":
                continue
            otypes = {oid[1]: ob.dom.get("EXT") for oid, ob in rc.final.heap.items() if isinstance(oid, tuple) and oid[0] == "out"}
            dc = rc.domains["EXT"]
            if dc.conflicts:
                continue
            for rl in m.runs.get("compute_partials", []):
                if rl.final is None or not rl.compatible(rc.sigma):
                    continue
                if _sym_of(rl.sigma) != sym:
                    continue
                dl = rl.domains["EXT"]
                # types of the inputs, from reads in either method
                itypes = {}
                for run in (rc, rl):
                    for e in run.events:
                        if e.kind == "read" and e.cell and e.cell[0] == "in":
                            pass
                for oid, ob in rl.final.heap.items():
                    if not (isinstance(oid, tuple) and oid[0] == "partials"):
                        continue
                    o, w = oid[1], oid[2]
                    tp = ob.dom.get("EXT")
                    to = otypes.get(o)
                    if tp is None or to is None or not isinstance(tp, T) or tp.const or to.const or tp.dbl:
                        continue
                    # input type from the role table / shape
                    shp = m.shape_of(("in", w), rl.sigma)
                    from ..ext import has_panel

                    wp = has_panel(shp)
                    base = w.split(">_")[-1] if ">_" in w else w
                    if base in ROLE_SCALARS and not wp:
                        ih, if_ = ROLE_SCALARS[base]
                    else:
                        ih, if_ = 0, 0
                    eh, ef = to.h - ih, to.f - if_
                    if wp and not to.p:
                        # derivative of a total with respect to a panel quantity removes the reduction
                        if sym is True:
                            eh -= 1
                        elif sym is False:
                            ef -= 1
                        else:
                            continue
                    elif wp is None:
                        continue
                    key = "%s: partials[%s, %s] [%s]" % (c.name, norm_name(o), norm_name(w), "symmetry" if sym else ("full span" if sym is False else "-"))
                    st_ev = [e for e in rl.events if e.kind == "store" and e.cell == oid]
                    wh = where(c, st_ev[-1].lineno) if st_ev else c.where
                    if (tp.h, tp.f) == (eh, ef):
                        chk.ok(rule, key, wh, "type (%s,%s)" % (tp.h, tp.f))
                    elif any(e.kind == "store" and e.cell and e.cell[0] == "partials" and "?" in e.cell[1:] for e in rl.events):
                        # some store in this method goes to a partials key that was not resolved: it may be this block
                        chk.undecided(rule, key, wh, "a store to an unresolved partials key may rescale this block")
                    elif sym is True and (tp.h + tp.f) == (eh + ef):
                        chk.violation(rule, key, wh, "the stored partial has extensivity (%s,%s) but d(%s)/d(%s) needs (%s,%s) under %s: the symmetry factor of the output is %s in this partial block" % (tp.h, tp.f, o, w, eh, ef, sig_txt(rl.sigma), "missing" if tp.f < ef else "applied although the output is not doubled"))
                    else:
                        chk.undecided(rule, key, wh, "partial type (%s,%s) vs expected (%s,%s)" % (tp.h, tp.f, eh, ef))


def x3(chk, repo):
    """Fuel loads of the modelled half: (fuel_mass + Wf_reserve) g n / 2 under symmetry,
    the whole of it for a full model (shared with C16-W2c, here for the half/full clause)."""
    from .c16 import w2c

    w2c(chk, repo, rule="X3", only=("FuelLoads",), min_decided=2)


def run(chk, repo, tier):
    x1(chk, repo)
    p9(chk, repo)
    x3(chk, repo)
