"""C16 -- structural weight, fuel, point-mass and thrust loads: what is added to
the beam's right-hand side is exactly the sum of the enabled sources, each
source conserves its total (element loads lumped half/half on the two end
nodes, normalised nodal weightings), acts in its stated direction, and the
moments are arm x force with the arm from the node to the load.

  W1  TotalLoads identity per option valuation
  W2  element-to-node lumping of StructureWeightLoads / FuelLoads
  W3  point-mass / thrust loads: normalised weights, direction, moment = r x F
  W4  Weight / StructuralCG: mass and centre of gravity, symmetry handling
  W5  load_factor is exposed under its own name wherever a subsystem has it
  W6  extensivity typing (X1 restricted to the structural weight components)
"""
import ast

import sympy as sp

from ..groups import group_model
from ..model import component_model
from ..symx import SymX, equal, lin_expand
from ..wiring import _promote_list, _strip, level_view
from .c17 import Acc, _out, _short, check_identity, grav
from .common import sig_txt

S = "openaerostruct/structures/"


def _runs(repo, rel, cname):
    c = repo.cls(rel, cname)
    m = component_model(repo, c, domains=(SymX,))
    return c, [r for r in m.runs.get("compute", []) if r.final is not None]


def _flag(sigma, frag):
    for k, v in sigma.items():
        if frag in k:
            return (not v) if k.lstrip("(").startswith(("not ", "'%s' not in" % frag)) or " not in " in k else v
    return None


# --------------------------------------------------------------------------- W1
SOURCES = [
    ("struct_weight_relief", ("struct_weight_loads",)),
    ("distributed_fuel_weight", ("fuel_weight_loads",)),
    ("n_point_masses", ("loads_from_point_masses", "loads_from_thrusts")),
]


def w1(chk, repo):
    chk.rule("W1", "per option valuation, TotalLoads.compute gives total_loads = loads + (each enabled source exactly once, coefficient 1): struct_weight_loads iff struct_weight_relief, fuel_weight_loads iff distributed_fuel_weight, loads_from_point_masses + loads_from_thrusts iff n_point_masses", min_decided=8)
    c, runs = _runs(repo, S + "total_loads.py", "TotalLoads")
    for r in runs:
        t = r.domains["SYMX"].table
        a = Acc(t)
        want = a.s("loads")
        tag = sig_txt(r.sigma)
        missing = want is None
        for frag, names in SOURCES:
            on = _flag(r.sigma, frag)
            if on is None:
                missing = True
                break
            if on:
                for n in names:
                    s = a.s(n)
                    if s is None:
                        # the source is enabled but its input is never read
                        s = t.get(n, array=True)
                    want = want + s if want is not None else None
        if missing:
            chk.undecided("W1", "TotalLoads %s" % tag, c.where, "option atoms / symbols not recognised", algebraic=True)
            continue
        check_identity(chk, "W1", "TotalLoads.total_loads %s" % tag, c.where, _out(r, "total_loads"), want, t, "total_loads = loads + enabled sources")


# --------------------------------------------------------------------------- W2
def _contrib(run, e):
    """signed expression added by a store event into a zero-initialised array."""
    nv = run.domains["SYMX"].nodeval
    op = e.d.get("op")
    v = e.d.get("val")
    d = v.dom.get("SYMX") if v is not None else None
    if op == "+=":
        return d
    if op == "-=":
        return -d if d is not None else None
    n = e.node
    if op == "=" and isinstance(n, ast.Assign) and isinstance(n.value, ast.BinOp) and isinstance(n.value.op, (ast.Add, ast.Sub)):
        if ast.unparse(n.value.left) == e.d.get("target"):
            rr = nv.get(id(n.value.right))
            if rr is None:
                return None
            return rr if isinstance(n.value.op, ast.Add) else -rr
    return None


def _lump_stores(run, outname):
    """{(rows, col): [contribution, ...]} for the array finally stored to outputs[outname]."""
    target_obj = None
    for e in run.events:
        if e.kind == "store" and e.d.get("cell") == ("out", outname) and not e.d.get("csubs"):
            v = e.d.get("val")
            if v is not None and v.obj is not None:
                target_obj = v.obj
    out = {}
    others = []
    for e in run.events:
        if e.kind != "store":
            continue
        if e.d.get("obj") not in (target_obj, ("out", outname)):
            continue
        cs = e.d.get("csubs") or ()
        if not cs:
            if e.d.get("cell") == ("out", outname) and e.d.get("op") == "=":
                continue
            others.append(e)
            continue
        parts = cs[0].replace(" ", "").split(",")
        if len(parts) == 2 and parts[0] in (":-1", "1:") and parts[1].isdigit():
            out.setdefault((parts[0], int(parts[1])), []).append((e, _contrib(run, e)))
        else:
            others.append(e)
    return out, others


def _total_over_nodes(run, outname, col, t):
    """Sum over all nodes of what is stored into column `col` of the load array, as an
    expression: range stores contribute SIG(value), single-row stores the value; the
    slice identities SIG(x[:-1]) = SIG(x) - x[-1], SIG(x[1:]) = SIG(x) - x[0] are applied."""
    from ..symx import SIG, SUB

    target_obj = None
    for e in run.events:
        if e.kind == "store" and e.d.get("cell") == ("out", outname) and not e.d.get("csubs"):
            v = e.d.get("val")
            if v is not None and v.obj is not None:
                target_obj = v.obj
    total = sp.Integer(0)
    n = 0
    for e in run.events:
        if e.kind != "store" or e.d.get("obj") not in (target_obj, ("out", outname)):
            continue
        cs = (e.d.get("csubs") or ("",))[0].replace(" ", "")
        parts = cs.split(",")
        if len(parts) != 2 or parts[1] != str(col):
            continue
        cval = _contrib(run, e)
        if e.d.get("op") == "=" and cval is None:
            v = e.d.get("val")
            cval = v.dom.get("SYMX") if v is not None else None
        if cval is None:
            return None, n
        n += 1
        total = total + (SIG(cval) if ":" in parts[0] else cval)
    if n == 0:
        return None, 0

    def rw(x):
        if x.func == SIG and x.args[0].func == SUB:
            inner, sl = x.args[0].args[0], str(x.args[0].args[1])
            if sl == ":-1":
                return SIG(inner) - SUB(inner, sp.Symbol("-1"))
            if sl == "1:":
                return SIG(inner) - SUB(inner, sp.Symbol("0"))
        if not x.args:
            return x
        return x.func(*[rw(a_) for a_ in x.args])

    from ..symx import lin_expand

    tot = lin_expand(total, t)
    # distribute SIG / SUB over sums of slices of one expression
    def dist(x):
        if x.func == SIG and x.args[0].func == sp.Add:
            return sp.Add(*[dist(SIG(a_)) for a_ in x.args[0].args])
        if x.func == SIG and x.args[0].func == sp.Mul:
            num = [f for f in x.args[0].args if f.is_number]
            rest = [f for f in x.args[0].args if not f.is_number]
            if num:
                return sp.Mul(*num) * dist(SIG(sp.Mul(*rest)))
        if not x.args:
            return x
        return x.func(*[dist(a_) for a_ in x.args])

    return sp.expand(rw(dist(sp.expand(tot)))), n


def w2c(chk, repo, rule="W2c", only=None, min_decided=2):
    chk.rule(rule, "conservation of the distributed weight whatever the lumping idiom: the z forces stored to the load array, summed over all nodes, equal minus the total weight of the elements (structure: sum of element_mass g n; fuel: (fuel_mass + Wf_reserve) g n, halved for a half model)", min_decided=min_decided)
    from ..symx import SIG

    g = grav(repo)
    for rel, cn, outname in ((S + "wing_weight_loads.py", "StructureWeightLoads", "struct_weight_loads"), (S + "fuel_loads.py", "FuelLoads", "fuel_weight_loads")):
        if only is not None and cn not in only:
            continue
        c, runs = _runs(repo, rel, cn)
        for r in runs:
            t = r.domains["SYMX"].table
            a = Acc(t)
            tag = sig_txt(r.sigma)
            key = "%s %s total z force" % (cn, tag)
            tot, n = _total_over_nodes(r, outname, 2, t)
            nlf = a.s("load_factor")
            if tot is None or nlf is None:
                chk.undecided(rule, key, c.where, "z-force stores not extracted (%d)" % n, algebraic=True)
                continue
            if cn == "StructureWeightLoads":
                em = a.s("element_mass")
                want = -SIG(em) * g * nlf if em is not None else None
            else:
                fm = a.s("fuel_mass")
                res = [s_ for s_ in tot.free_symbols if s_.name.startswith("cfg:") and "Wf_reserve" in s_.name]
                sym = _flag(r.sigma, "symmetry")
                if fm is not None and res and sym is None:
                    # compute() never consults the symmetry flag: the same expression serves the half
                    # and the full model, so it has to satisfy both specifications
                    for symv in (True, False):
                        check_identity(chk, rule, key + (" [symmetry=%s, flag not consulted]" % symv), c.where, tot, -(fm + res[0]) * g * nlf * (sp.Rational(1, 2) if symv else 1), t, "sum over nodes of the z forces = -(total weight)")
                    continue
                want = -(fm + res[0]) * g * nlf * (sp.Rational(1, 2) if sym else 1) if (fm is not None and res and sym is not None) else None
            check_identity(chk, rule, key, c.where, tot, want, t, "sum over nodes of the z forces = -(total weight)")


def w2(chk, repo):
    chk.rule("W2", "distributed element loads are lumped half/half on the two end nodes: the contributions stored to rows [:-1] and [1:] of the z-force column are equal and sum (over nodes and elements) to minus the total weight (element_mass g n per element for the structure; (fuel_mass + Wf_reserve) g n, halved under symmetry, for the fuel), nothing is stored to the x/y force or torsion columns, and the consistent end moments are equal and opposite", min_decided=6)
    g = grav(repo)
    for rel, cn, outname in ((S + "wing_weight_loads.py", "StructureWeightLoads", "struct_weight_loads"), (S + "fuel_loads.py", "FuelLoads", "fuel_weight_loads")):
        c, runs = _runs(repo, rel, cn)
        for r in runs:
            t = r.domains["SYMX"].table
            a = Acc(t)
            tag = sig_txt(r.sigma)
            st, others = _lump_stores(r, outname)
            n = a.s("load_factor")
            for e in others:
                op = e.d.get("op")
                v = e.d.get("val")
                d = v.dom.get("SYMX") if v is not None else None
                if not e.d.get("csubs") and op == "*=" and d is not None and d.is_zero:
                    continue  # re-zeroing of the accumulator before the stores
                chk.undecided("W2", "%s %s store %s" % (cn, tag, e.d.get("target")), "%s:%d" % (c.mod.rel, e.lineno), "store outside the half/half lumping idiom", algebraic=True)
            cols = sorted({k[1] for k in st})
            bad_cols = [k for k in cols if k not in (2, 3, 4)]
            key = "%s %s columns" % (cn, tag)
            if bad_cols:
                chk.violation("W2", key, c.where, "weight loads are stored to load column(s) %s; gravity loads only have a z force (2) and consistent bending moments (3, 4)" % bad_cols, algebraic=True)
            elif 2 in cols:
                chk.ok("W2", key, c.where, "columns written: %s" % cols, algebraic=True)
            else:
                chk.undecided("W2", key, c.where, "no z-force store recognised", algebraic=True)
                continue
            for col in cols:
                lo, hi = st.get((":-1", col), []), st.get(("1:", col), [])
                key = "%s %s column %d" % (cn, tag, col)
                if len(lo) != 1 or len(hi) != 1:
                    chk.violation("W2", key, c.where, "column %d is stored %d time(s) on the first-node rows and %d time(s) on the second-node rows; each element load must reach both of its end nodes once" % (col, len(lo), len(hi)), algebraic=True) if (len(lo) + len(hi)) % 2 == 1 or not lo or not hi else chk.undecided("W2", key, c.where, "several stores per row range", algebraic=True)
                    continue
                (e1, c1), (e2, c2) = lo[0], hi[0]
                wh = "%s:%d" % (c.mod.rel, e1.lineno)
                if c1 is None or c2 is None:
                    chk.undecided("W2", key, wh, "stored expression not extracted", algebraic=True)
                    continue
                if col == 2:
                    r1 = equal(c1, c2, t)
                    if r1 is False:
                        chk.violation("W2", key + " split", wh, "the two end nodes of an element receive different shares: %s vs %s" % (_short(c1), _short(c2)), algebraic=True)
                    elif r1 is None:
                        chk.undecided("W2", key + " split", wh, "", algebraic=True)
                    else:
                        chk.ok("W2", key + " split", wh, "equal shares", algebraic=True)
                    if cn == "StructureWeightLoads":
                        em = a.s("element_mass")
                        want = -em * g * n if None not in (em, n) else None
                        check_identity(chk, "W2", key + " total", wh, c1 + c2, want, t, "per element: sum of the two nodal z forces = -element_mass g n")
                    else:
                        fm = a.s("fuel_mass")
                        res = [s for s in (c1.free_symbols) if s.name.startswith("cfg:") and "Wf_reserve" in s.name]
                        sym = _flag(r.sigma, "symmetry")
                        if None not in (fm, n) and res and sym is None:
                            SIG = sp.Function("SIG")
                            for symv in (True, False):
                                check_identity(chk, "W2", key + (" total [symmetry=%s, flag not consulted]" % symv), wh, SIG(c1 + c2), -(fm + res[0]) * g * n * (sp.Rational(1, 2) if symv else 1), t, "sum over elements and end nodes of the z forces = -(fuel_mass + Wf_reserve) g n (half model: /2)")
                            continue
                        if None in (fm, n) or not res or sym is None:
                            chk.undecided("W2", key + " total", wh, "symbols not found", algebraic=True)
                            continue
                        W = (fm + res[0]) * g * n * (sp.Rational(1, 2) if sym else 1)
                        SIG = sp.Function("SIG")
                        check_identity(chk, "W2", key + " total", wh, SIG(c1 + c2), -W, t, "sum over elements and end nodes of the z forces = -(fuel_mass + Wf_reserve) g n (half model: /2)")
                else:
                    check_identity(chk, "W2", key + " moments", wh, c1 + c2, sp.Integer(0), t, "end moments of an element are equal and opposite")


# --------------------------------------------------------------------------- W3
def _outer_literal(func):
    """literal direction row of `np.outer(w, np.array([[a, b, c]]))` calls in a function."""
    out = []
    for n in ast.walk(func):
        if isinstance(n, ast.Call) and ast.unparse(n.func) in ("np.outer", "numpy.outer") and len(n.args) == 2:
            try:
                v = ast.literal_eval(n.args[1].args[0]) if isinstance(n.args[1], ast.Call) else ast.literal_eval(n.args[1])
            except Exception:
                out.append((n, None, None))
                continue
            while isinstance(v, (list, tuple)) and len(v) == 1 and isinstance(v[0], (list, tuple)):
                v = v[0]
            out.append((n, tuple(float(x) for x in v) if isinstance(v, (list, tuple)) else None, ast.unparse(n.args[0])))
    return out


def w3(chk, repo):
    chk.rule("W3", "concentrated loads: the nodal weightings of every load are normalised (sum over nodes = 1, so the full load is applied), the force is weighting x direction x magnitude with direction (0,0,-1) and magnitude m g n for point masses, direction (-1,0,0) and magnitude T for thrust, and the moment stored is arm x force with the arm from the node to the load point and the same force array", min_decided=8)
    g = grav(repo)
    for rel, cn, outname, direction, magn in (
        (S + "compute_point_mass_loads.py", "ComputePointMassLoads", "loads_from_point_masses", (0.0, 0.0, -1.0), "point_masses"),
        (S + "compute_thrust_loads.py", "ComputeThrustLoads", "loads_from_thrusts", (-1.0, 0.0, 0.0), "engine_thrusts"),
    ):
        c, runs = _runs(repo, rel, cn)
        f = c.methods.get("compute")
        lits = _outer_literal(f.node) if f is not None else []
        if len(lits) == 1 and lits[0][1] is not None:
            if lits[0][1] == direction:
                chk.ok("W3", "%s direction" % cn, "%s:%d" % (c.mod.rel, lits[0][0].lineno), "direction %s" % (direction,))
            else:
                chk.violation("W3", "%s direction" % cn, "%s:%d" % (c.mod.rel, lits[0][0].lineno), "load direction is %s, expected %s" % (lits[0][1], direction))
        else:
            chk.undecided("W3", "%s direction" % cn, c.where, "np.outer(weights, literal direction) idiom not found")
        # every per-load array (one row / entry per point mass or engine) is addressed with the loop index of the
        # load being processed: a fixed row would apply another load's weights / magnitude / position
        for loop in (ast.walk(f.node) if f is not None else ()):
            if not isinstance(loop, ast.For):
                continue
            ivs = [x.id for x in ast.walk(loop.target) if isinstance(x, ast.Name)]
            if not ivs:
                continue
            subs = [x for x in ast.walk(ast.Module(body=loop.body, type_ignores=[])) if isinstance(x, ast.Subscript)]

            def first(x):
                return x.slice.elts[0] if isinstance(x.slice, ast.Tuple) and x.slice.elts else x.slice

            for iv in ivs:
                per_load = {ast.unparse(x.value) for x in subs if isinstance(first(x), ast.Name) and first(x).id == iv}
                for b in sorted(per_load):
                    key = "%s per-load array %s indexed by %s" % (cn, b, iv)
                    bad = [x for x in subs if ast.unparse(x.value) == b and not (isinstance(first(x), ast.Name) and first(x).id == iv) and isinstance(first(x), (ast.Constant, ast.UnaryOp, ast.Name, ast.BinOp))]
                    if bad:
                        chk.violation("W3", key, "%s:%d" % (c.mod.rel, bad[0].lineno), "%s is addressed as %s inside the loop over the loads, where the other accesses use the loop index %s: the load with index %s gets the row of another load" % (b, ast.unparse(bad[0])[:60], iv, iv))
                    else:
                        chk.ok("W3", key, "%s:%d" % (c.mod.rel, loop.lineno), "all accesses use the loop index")
        for r in runs:
            t = r.domains["SYMX"].table
            a = Acc(t)
            SIG = sp.Function("SIG")
            seen = set()
            F = None
            for e in r.events:
                if e.kind != "store" or e.d.get("obj") is None:
                    continue
                v = e.d.get("val")
                d = v.dom.get("SYMX") if v is not None else None
                cs = (e.d.get("csubs") or ("",))[0].replace(" ", "")
                ob = e.d.get("obj")
                wh = "%s:%d" % (c.mod.rel, e.lineno)
                if ob == ("out", "nodal_weightings") and "w" not in seen:
                    seen.add("w")
                    key = "%s nodal_weightings normalised" % cn
                    if d is None:
                        chk.undecided("W3", key, wh, "", algebraic=True)
                    else:
                        check_identity(chk, "W3", key, wh, SIG(d), sp.Integer(1), t, "sum over nodes of the weightings = 1")
                elif ob == ("out", outname) and cs == ":,:3" and "f" not in seen:
                    seen.add("f")
                    key = "%s force" % cn
                    F = d
                    if d is None or e.d.get("op") != "+=":
                        chk.undecided("W3", key, wh, "force store not extracted", algebraic=True)
                        continue
                    dirs = [s for s in d.free_symbols if s.name.startswith("opq:")]
                    mags = [s for s in d.free_symbols if s.name.split("[")[0] == magn]
                    n = a.s("load_factor")
                    if len(dirs) != 1 or len(mags) != 1:
                        chk.undecided("W3", key, wh, "direction/magnitude factors not isolated in %s" % _short(d), algebraic=True)
                        continue
                    want = dirs[0] * mags[0] * (g * n if magn == "point_masses" and n is not None else 1)
                    check_identity(chk, "W3", key, wh, d, want, t, "force = weighting x direction x magnitude")
                elif ob == ("out", outname) and cs == ":,3:" and "m" not in seen:
                    seen.add("m")
                    key = "%s moment" % cn
                    if d is None or F is None or e.d.get("op") != "+=":
                        chk.undecided("W3", key, wh, "moment store not extracted", algebraic=True)
                        continue
                    nodes = a.s("nodes")
                    loc = [s for s in d.free_symbols if s.name.split("[")[0] == "point_mass_locations"]
                    if isinstance(d, sp.Symbol) and d.name.startswith("opq:obj:"):
                        # the moment array is assembled piecewise: every piece must depend on the load point
                        # and on the nodes only through their difference (translation invariance of r x F)
                        var = d.name[len("opq:obj:"):].split("#")[0]
                        pieces = [(e2, e2.d.get("val").dom.get("SYMX") if e2.d.get("val") is not None else None) for e2 in r.events if e2.kind == "store" and (e2.d.get("target") or "").startswith(var + "[")]
                        shift = sp.Symbol("shift", real=True)
                        t.arrays.add(shift)
                        badp = None
                        und = not pieces
                        for e2, pe in pieces:
                            if pe is None:
                                und = True
                                continue
                            sub = {s_: s_ + shift for s_ in pe.free_symbols if s_.name.split("[")[0] in ("point_mass_locations", "nodes") or s_.name.startswith(("opq:span_dist", "opq:xyz_dist")) and False}
                            # derived locals (xyz_dist, span_dist) are differences already: only raw positions shift
                            moved = lin_expand(pe.subs(sub, simultaneous=True) - pe)
                            if moved != 0:
                                badp = (e2, pe, moved)
                        if badp:
                            e2, pe, moved = badp
                            chk.violation("W3", key, "%s:%d" % (c.mod.rel, e2.lineno), "the moment component %s = %s changes by %s when the load point and the nodes are translated together: the arm is not (load point - node)" % (e2.d.get("target"), _short(pe), _short(moved)), algebraic=True)
                        elif und:
                            chk.undecided("W3", key, wh, "piecewise moment not extracted", algebraic=True)
                        else:
                            chk.undecided("W3", key, wh, "piecewise moment: translation-invariant pieces, cross-product form not verified", algebraic=True)
                        continue
                    if nodes is None or len(loc) != 1:
                        chk.undecided("W3", key, wh, "arm symbols not found", algebraic=True)
                        continue
                    CROSS = sp.Function("CROSS")
                    check_identity(chk, "W3", key, wh, d, CROSS(loc[0] - nodes, F), t, "moment = (load point - node) x force")
            for k, nm in (("w", "nodal_weightings store"), ("f", "force store"), ("m", "moment store")):
                if k not in seen:
                    chk.undecided("W3", "%s %s" % (cn, nm), c.where, "store not found")


# --------------------------------------------------------------------------- W4
def w4(chk, repo):
    chk.rule("W4", "Weight: element_mass = |dl| A mrho wing_weight_ratio and structural_mass = k sum(element_mass) with k = 2 under symmetry, 1 otherwise; StructuralCG: the mass-weighted element-centre mean is modified only under symmetry (y component zeroed, result doubled because structural_mass counts both halves) and is returned unmodified for a full model", min_decided=5)
    c, runs = _runs(repo, S + "weight.py", "Weight")
    for r in runs:
        t = r.domains["SYMX"].table
        a = Acc(t)
        tag = sig_txt(r.sigma)
        em, sm = _out(r, "element_mass"), _out(r, "structural_mass")
        sym = _flag(r.sigma, "symmetry")
        SIG = sp.Function("SIG")
        if em is not None and sm is not None and sym is None:
            chk.violation("W4", "Weight.structural_mass %s" % tag, c.where, "structural_mass = %s does not consult the symmetry option: a half model and a full model cannot both get the mass of the whole wing" % _short(sm), algebraic=True)
            continue
        if em is None or sm is None or sym is None:
            chk.undecided("W4", "Weight %s" % tag, c.where, "expressions not extracted", algebraic=True)
            continue
        check_identity(chk, "W4", "Weight.structural_mass %s" % tag, c.where, sm, (2 if sym else 1) * SIG(em), t, "structural_mass = k sum(element_mass)")
        A = a.s("A")
        cf = {s.name: s for s in em.free_symbols if s.name.startswith("cfg:")}
        mr = [s for n, s in cf.items() if "mrho" in n]
        ww = [s for n, s in cf.items() if "wing_weight_ratio" in n]
        key = "Weight.element_mass %s" % tag
        if A is None or not mr or not ww:
            chk.violation("W4", key, c.where, "element_mass = %s does not contain all of A, mrho, wing_weight_ratio" % _short(em), algebraic=True)
            continue
        q = sp.simplify(em / (A * mr[0] * ww[0]))
        left = {s.name for s in q.free_symbols}
        if left & {A.name, mr[0].name, ww[0].name}:
            chk.violation("W4", key, c.where, "element_mass is not linear in A mrho wing_weight_ratio: quotient %s" % _short(q), algebraic=True)
        elif not any(nm.startswith("nodes") for nm in left):
            chk.violation("W4", key, c.where, "element_mass does not depend on the element length (nodes): %s" % _short(em), algebraic=True)
        else:
            chk.ok("W4", key, c.where, "element_mass = (length from nodes) x A x mrho x wing_weight_ratio", algebraic=True)
    c, runs = _runs(repo, S + "structural_cg.py", "StructuralCG")
    for r in runs:
        tag = sig_txt(r.sigma)
        sym = _flag(r.sigma, "symmetry")
        # the array finally stored to outputs['cg_location']
        tobj = None
        for e in r.events:
            if e.kind == "store" and e.d.get("cell") == ("out", "cg_location") and not e.d.get("csubs"):
                v = e.d.get("val")
                tobj = v.obj if v is not None else None
        mods = []
        for e in r.events:
            if e.kind == "store" and (e.d.get("obj") == ("out", "cg_location") and (e.d.get("csubs") or e.d.get("op") != "=") or (tobj is not None and e.d.get("obj") == tobj)):
                v = e.d.get("val")
                d = v.dom.get("SYMX") if v is not None else None
                cs0 = (e.d.get("csubs") or ("",))[0]
                sv0 = (e.d.get("sub_vals") or (None,))[0]
                if sv0 is not None and sv0.kind == "num" and sv0.sym is not None and sv0.sym.is_number:
                    cs0 = str(sv0.sym)  # an index held in a local / helper parameter: its value, not its name
                mods.append((cs0, e.d.get("op"), d, e))
        key = "StructuralCG %s" % tag
        if sym is None:
            chk.undecided("W4", key, c.where, "symmetry atom not found")
            continue
        desc = sorted((cs, op, str(d)) for cs, op, d, e in mods)
        if not sym:
            if mods:
                e = mods[0][3]
                chk.violation("W4", key, "%s:%d" % (c.mod.rel, e.lineno), "full (non-symmetric) model: the centre of gravity is modified after the mass-weighted mean (%s); no component may be overwritten or rescaled" % desc)
            else:
                chk.ok("W4", key, c.where, "mass-weighted mean returned unmodified")
        else:
            want = [("", "*=", "2"), ("1", "=", "0")]
            if desc == want:
                chk.ok("W4", key, c.where, "y component zeroed and result doubled")
            else:
                chk.violation("W4", key, c.where, "half model: expected exactly cg[1] = 0 and cg *= 2 after the half-span mean, found %s" % desc)


# --------------------------------------------------------------------------- W5
# documented user connection points that are deliberately left one level down
BOUNDARY = {
    ("AerostructPoint", "self", "coupled", "load_factor"): "public API: every aerostructural example connects load_factor -> <point>.coupled.load_factor (docs/wingbox_mpt_opt_example.py, examples/run_aerostruct_uCRM_multipoint.py); total_perf.load_factor is promoted separately",
}

EXPOSED = {"load_factor": "flight load factor multiplying every inertial load; one value per analysis point"}


def exposure(chk, repo, rule, names, groups=None, boundary=None, min_decided=1, text=None):
    """wherever a subsystem of a repository group has an input in ``names`` in some
    valuation, the group promotes (or connects) it in that valuation."""
    boundary = boundary or {}
    chk.rule(rule, text or ("wherever a subsystem of a repository group has an input named %s in some option valuation, the group promotes it under that name (or connects it) in that valuation: otherwise the component silently keeps its default while the rest of the model sees the user's value" % " / ".join(sorted(names))), min_decided=min_decided)
    for g in repo.groups():
        if groups is not None and g.name not in groups:
            continue
        gm = group_model(repo, g)
        res = {}
        for gr in gm.runs:
            for owner in gr.owners():
                lv = level_view(repo, gr, owner)
                unk = set()
                for s in gr.subs_of(owner):
                    if any(_promote_list(s.kwargs.get(k)) is None for k in ("promotes", "promotes_inputs", "promotes_outputs")):
                        unk.add((s.name or "").replace("[0]", "[i]"))
                tg = set()
                for o, a_, b_, e in gr.connects:
                    if o == owner and b_:
                        tg.add(b_.replace("[0]", "[i]"))
                for (sname, var), lvl in lv.rename.items():
                    if var not in names:
                        continue
                    if lvl not in lv.names[sname][0]:
                        continue
                    key = "%s/%s %s.%s" % (g.name, owner, sname, var)
                    if (g.name, owner, sname, var) in boundary:
                        chk.info(rule, key, g.where, "documented connection point: " + boundary[(g.name, owner, sname, var)])
                        continue
                    if sname in unk:
                        res.setdefault(key, []).append(("unknown", gr))
                    elif "." in _strip(lvl) and lvl not in tg:
                        res.setdefault(key, []).append(("dotted", gr))
                    else:
                        res.setdefault(key, []).append(("ok", gr))
        for key, lst in sorted(res.items()):
            bad = [gr for st, gr in lst if st == "dotted"]
            unkn = [gr for st, gr in lst if st == "unknown"]
            if bad:
                chk.violation(rule, key, g.where, "input %s exists but is neither promoted nor connected under %s (%d of %d valuations)" % (key.split(" ")[1], sig_txt(bad[0].sigma), len(bad), len(lst)))
            elif unkn:
                chk.undecided(rule, key, g.where, "promotes list not resolved under %s" % sig_txt(unkn[0].sigma))
            else:
                chk.ok(rule, key, g.where, "promoted in all %d valuations where it exists" % len(lst))


def w5(chk, repo):
    exposure(chk, repo, "W5", EXPOSED, boundary=BOUNDARY, min_decided=6)


def run(chk, repo, tier):
    from .c04 import x1

    w1(chk, repo)
    w2(chk, repo)
    w2c(chk, repo)
    w3(chk, repo)
    w4(chk, repo)
    w5(chk, repo)
    x1(chk, repo, only={"Weight", "StructuralCG", "StructureWeightLoads", "FuelLoads", "WingboxFuelVolDelta", "FuelVolDelta"}, rule="W6")
