"""C09 -- Prandtl-Glauert pipeline: algebraic skeleton (PG1 exponent table, PG2
rotations, PG3 frame wiring)."""
import ast

import sympy as sp

from ..groups import group_model
from ..load import unparse
from ..model import component_model
from ..symx import SymX, equal
from .common import sig_txt, where

PGS = "openaerostruct/aerodynamics/pg_scale.py"
PGW = "openaerostruct/aerodynamics/pg_wind_rotation.py"
CV = "openaerostruct/aerodynamics/convert_velocity.py"
CS = "openaerostruct/aerodynamics/compressible_states.py"

# exponents of beta per Cartesian axis, from the property statement
EXPECT = {
    "bound_vecs_pg": (0, 1, 1),
    "coll_pts_pg": (0, 1, 1),
    "force_pts_pg": (0, 1, 1),
    "_def_mesh_pg": (0, 1, 1),
    "_normals_pg": (1, 0, 0),
    "rotational_velocities_pg": (2, 1, 1),
    "_sec_forces_w_frame": (-4, -3, -3),
}


def _assigned(run, name):
    out = None
    for e in run.events:
        if e.kind == "assign" and e.d.get("name") == name and e.val is not None:
            v = e.val.dom.get("SYMX")
            if v is not None:
                out = (v, e)
    return out


def _exp_of(ratio, beta_expr, M):
    """k such that ratio == beta^k, beta = sqrt(1 - M^2) (None if not a power)."""
    b = sp.Symbol("b_", positive=True)
    r = sp.simplify(ratio.subs(M, sp.sqrt(1 - b**2)))
    r = sp.powsimp(sp.simplify(r), force=True)
    if r == 1:
        return 0
    k = sp.Wild("k")
    m = r.match(b**k)
    if m and m[k].is_number:
        return m[k]
    return None


def _clamped(base, per, M):
    """bound c when some expression applies min / max with a number 0 < c < 0.95 to the Mach number"""
    exprs = [base] + [v for v in per.values() if v is not None]
    for e in exprs:
        if e is None:
            continue
        for f in e.atoms(sp.Function):
            if f.func.__name__ in ("MIN2", "MAX2") and M in f.free_symbols:
                nums = [a for a in f.args if a.is_number]
                for c_ in nums:
                    if 0 < float(c_) < 0.95:
                        return "%s(%s)" % ("min" if f.func.__name__ == "MIN2" else "max", ", ".join(str(a) for a in f.args))
    return None


def pg1(chk, repo):
    chk.rule("PG1", "per-axis scale factors of the Prandtl-Glauert transformation are the powers of beta = sqrt(1 - M^2) named in the property (points (0,1,1), normals (1,0,0), rotational velocities (2,1,1), forces (-4,-3,-3)); each reduces to 1 at M = 0; the partials carry the same factors", min_decided=10)
    for cname in ("ScaleToPrandtlGlauert", "ScaleFromPrandtlGlauert"):
        c = repo.cls(PGS, cname)
        m = component_model(repo, c, domains=(SymX,))
        for r in m.runs.get("compute", []):
            if r.final is None:
                continue
            t = r.domains["SYMX"].table
            M = t.syms.get("Mach_number")
            for oid, ob in r.final.heap.items():
                if not (isinstance(oid, tuple) and oid[0] == "out"):
                    continue
                o = oid[1]
                suffix = [k for k in EXPECT if o.endswith(k)]
                if not suffix:
                    continue
                want = EXPECT[suffix[0]]
                key = "%s.%s %s" % (cname, o.replace("[0]", "[i]"), sig_txt(r.sigma))
                base = ob.dom.get("SYMX")
                per = ob.dom.get("SYMX_idx") or {}
                if base is None or M is None:
                    chk.undecided("PG1", key, c.where, "expression not extracted", algebraic=True)
                    continue
                got = []
                for ax in range(3):
                    e = None
                    for k, v in per.items():
                        if k.split(",")[-1] == str(ax) and all(x == ":" for x in k.split(",")[:-1]):
                            e = v
                    if e is None:
                        got.append(0)
                    else:
                        got.append(_exp_of(sp.simplify(e / base), None, M))
                clamp = _clamped(base, per, M)
                if clamp is not None:
                    chk.violation("PG1", key, c.where, "the scale factor is computed from a Mach number clamped at %s (inside the admissible range 0 < M < 0.95), not from beta = sqrt(1 - M^2)" % clamp, algebraic=True)
                elif any(g is None for g in got):
                    chk.undecided("PG1", key, c.where, "scale factor is not a power of beta: %s" % got, algebraic=True)
                elif tuple(got) == tuple(want):
                    chk.ok("PG1", key, c.where, "beta exponents %s" % (tuple(got),), algebraic=True)
                else:
                    chk.violation("PG1", key, c.where, "beta exponents per axis are %s; the Prandtl-Glauert transformation of the property needs %s" % (tuple(got), tuple(want)), algebraic=True)
        # the transformation is one smooth formula: no branch on the Mach number (or any other input)
        for mn in ("compute", "compute_partials"):
            for r in m.runs.get(mn, []):
                if r.final is None:
                    continue
                tests = [e for e in r.events if e.kind == "test" and any(str(d_).startswith("in:") for d_ in (e.d.get("dep") or ()))]
                key = "%s.%s: no input-valued branch %s" % (cname, mn, sig_txt(r.sigma))
                if tests:
                    e = tests[0]
                    chk.violation("PG1", key, "%s:%d" % (e.func.mod.rel, e.lineno), "the scale factors are selected by a test on an input (%s in %s): the transformation is not beta = sqrt(1 - M^2) for every Mach number, and the result is discontinuous where the test flips" % (" ".join((e.d.get("pred") or "").split())[:80], e.func.qual), algebraic=True)
                else:
                    chk.ok("PG1", key, c.where, "straight-line in the inputs", algebraic=True)
        # partial factors agree with compute
        for rl in m.runs.get("compute_partials", []):
            if rl.final is None:
                continue
            t = rl.domains["SYMX"].table
            M = t.syms.get("Mach_number")
            for oid, ob in rl.final.heap.items():
                if not (isinstance(oid, tuple) and oid[0] == "partials"):
                    continue
                o = oid[1]
                suffix = [k for k in EXPECT if o.endswith(k)]
                if not suffix or oid[2] == "Mach_number":
                    continue
                want = EXPECT[suffix[0]]
                P = ob.dom.get("SYMX")
                key = "%s: partials[%s, %s] %s" % (cname, o.replace("[0]", "[i]"), oid[2].replace("[0]", "[i]"), sig_txt(rl.sigma))
                if not isinstance(P, sp.MatrixBase) or len(P) != 3 or M is None:
                    chk.undecided("PG1", key, c.where, "factor vector not extracted", algebraic=True)
                    continue
                got = [_exp_of(x, None, M) for x in list(P)]
                if any(g is None for g in got):
                    chk.undecided("PG1", key, c.where, "factor is not a power of beta", algebraic=True)
                elif tuple(got) == tuple(want):
                    chk.ok("PG1", key, c.where, "beta exponents %s" % (tuple(got),), algebraic=True)
                else:
                    chk.violation("PG1", key, c.where, "the partial carries beta exponents %s but the value is scaled with %s" % (tuple(got), tuple(want)), algebraic=True)


def _einsum_apply(func, mat_name):
    """einsum specs that apply the 3x3 matrix named mat_name: must be 'lk,...k->...l'."""
    out = []
    for n in ast.walk(func.node):
        if isinstance(n, ast.Call) and unparse(n.func).endswith("einsum") and len(n.args) == 3 and isinstance(n.args[0], ast.Constant) and unparse(n.args[1]) == mat_name:
            spec = n.args[0].value.replace(" ", "")
            lhs, rhs = spec.split("->")
            a, b = lhs.split(",")
            ok = len(a) == 2 and b[-1] == a[1] and rhs[-1] == a[0] and b[:-1] == rhs[:-1]
            out.append((n, spec, ok))
    return out


def pg2(chk, repo):
    chk.rule("PG2", "the aero->wind matrix is orthogonal, its first row is the free-stream direction of ConvertVelocity, RotateFromWindFrame applies exactly its transpose, both apply the matrix as out_l = sum_k T[l,k] x_k, and the stored partial blocks are the row-major flattened matrices", min_decided=8)
    to = repo.cls(PGW, "RotateToWindFrame")
    fr = repo.cls(PGW, "RotateFromWindFrame")
    mt = component_model(repo, to, domains=(SymX,))
    mf = component_model(repo, fr, domains=(SymX,))
    Tto = Tfrom = None
    for r in mt.runs.get("compute", []):
        a = _assigned(r, "Tw")
        if a and isinstance(a[0], sp.MatrixBase) and a[0].shape == (3, 3):
            Tto = a
    for r in mf.runs.get("compute", []):
        a = _assigned(r, "Tw")
        if a and isinstance(a[0], sp.MatrixBase) and a[0].shape == (3, 3):
            Tfrom = a
    if Tto is None or Tfrom is None:
        chk.undecided("PG2", "rotation matrices", to.where, "3x3 matrix 'Tw' not extracted")
        return
    T, e = Tto
    w = where(to, e.lineno)
    R = sp.simplify(T * T.T - sp.eye(3))
    if R.is_zero_matrix:
        chk.ok("PG2", "RotateToWindFrame: Tw orthogonal", w, "Tw Tw^T = I", algebraic=True)
    else:
        chk.violation("PG2", "RotateToWindFrame: Tw orthogonal", w, "Tw Tw^T - I = %s: the aero->wind map is not a rotation" % R.tolist(), algebraic=True)
    if sp.simplify(T.det() - 1) == 0:
        chk.ok("PG2", "RotateToWindFrame: det Tw = 1", w, "proper rotation", algebraic=True)
    else:
        chk.violation("PG2", "RotateToWindFrame: det Tw = 1", w, "det Tw = %s" % sp.simplify(T.det()), algebraic=True)
    Tf, ef = Tfrom
    wf = where(fr, ef.lineno)
    D = sp.simplify(Tf - T.T)
    if D.is_zero_matrix:
        chk.ok("PG2", "RotateFromWindFrame: matrix == Tw^T", wf, "wind->aero is the transpose of aero->wind", algebraic=True)
    else:
        bad = [(i, j) for i in range(3) for j in range(3) if D[i, j] != 0]
        chk.violation("PG2", "RotateFromWindFrame: matrix == Tw^T", wf, "entries %s of the wind->aero matrix differ from the transpose of the aero->wind matrix: forces are not rotated back into the frame they came from" % bad, algebraic=True)
    # free-stream direction
    cv = repo.cls(CV, "ConvertVelocity")
    mc = component_model(repo, cv, domains=(SymX,))
    vinf = None
    for r in mc.runs.get("compute", []):
        a = _assigned(r, "v_inf")
        if a and isinstance(a[0], sp.MatrixBase):
            vinf = a
            tb = r.domains["SYMX"].table
    if vinf is None:
        chk.undecided("PG2", "first row of Tw == free-stream direction", w, "v_inf not extracted")
    else:
        V, ev = vinf
        a_t, b_t = [s for s in T.free_symbols if s.name == "alpha"], [s for s in T.free_symbols if s.name == "beta"]
        a_c, b_c, v_c = tb.syms.get("alpha"), tb.syms.get("beta"), tb.syms.get("v")
        if a_t and b_t and a_c is not None and v_c is not None:
            # ConvertVelocity takes degrees, RotateToWindFrame radians
            d = (V / v_c).subs({a_c: 180 * a_t[0] / sp.pi, b_c: 180 * b_t[0] / sp.pi})
            row = T[0, :].T
            if sp.simplify(d - row).is_zero_matrix:
                chk.ok("PG2", "first row of Tw == free-stream direction", w, "Tw[0,:] = v_inf/|v|", algebraic=True)
            else:
                chk.violation("PG2", "first row of Tw == free-stream direction", w, "the wind x-axis %s is not the free-stream direction %s of ConvertVelocity" % (list(row), list(sp.simplify(d))), algebraic=True)
        else:
            chk.undecided("PG2", "first row of Tw == free-stream direction", w, "symbols not matched")
    for cls, mm in ((to, mt), (fr, mf)):
        f = cls.methods["compute"]
        sp_ = _einsum_apply(f, "Tw")
        if not sp_:
            chk.undecided("PG2", "%s.compute: matrix application" % cls.name, f.where, "no einsum with Tw found")
        for n, spec, ok in sp_:
            key = "%s.compute: einsum '%s'" % (cls.name, spec)
            if ok:
                chk.ok("PG2", key, "%s:%d" % (f.mod.rel, n.lineno), "out_l = sum_k Tw[l,k] x_k")
            else:
                chk.violation("PG2", key, "%s:%d" % (f.mod.rel, n.lineno), "the einsum applies the transpose (or a different contraction) of the matrix it names")
        # partial blocks
        Tm = T if cls is to else Tf
        flat = sp.Matrix([x for row in Tm.tolist() for x in row])
        for rl in mm.runs.get("compute_partials", []):
            if rl.final is None:
                continue
            for oid, ob in rl.final.heap.items():
                if isinstance(oid, tuple) and oid[0] == "partials" and oid[2] not in ("alpha", "beta"):
                    P = ob.dom.get("SYMX")
                    key = "%s: partials[%s, %s] %s" % (cls.name, oid[1].replace("[0]", "[i]"), oid[2].replace("[0]", "[i]"), sig_txt(rl.sigma))
                    if not isinstance(P, sp.MatrixBase) or P.shape != (9, 1):
                        chk.undecided("PG2", key, cls.where, "partial block not extracted", algebraic=True)
                    elif sp.simplify(P - flat).is_zero_matrix:
                        chk.ok("PG2", key, cls.where, "row-major flattened matrix", algebraic=True)
                    else:
                        chk.violation("PG2", key, cls.where, "the stored partial block is not the row-major flattening of the matrix applied by compute()", algebraic=True)


def pg3(chk, repo):
    chk.rule("PG3", "inside CompressibleVLMStates every EvalVelMtx / ConvertVelocity works at alpha_pg = beta_pg = 0, the inner solve receives only transformed (*_pg) geometry, rotational velocities are evaluated at the collocation points, and the forces leave through the inverse transform", min_decided=8)
    g = repo.cls(CS, "CompressibleVLMStates")
    gm = group_model(repo, g)
    for gr in gm.runs:
        tag = sig_txt(gr.sigma)
        conns = {(a, b) for o, a, b, e in gr.connects if o == "self"}
        subs = {s.name: s for s in gr.subs_of("self")}
        # angles of the inner frame
        for sname, s in subs.items():
            if s.cls_name == "EvalVelMtx":
                key = "%s: %s.alpha %s" % (g.name, sname, tag)
                if ("pg_frame.alpha_pg", sname + ".alpha") in conns and not _promotes(s, "alpha"):
                    chk.ok("PG3", key, g.where, "connected to pg_frame.alpha_pg")
                else:
                    chk.violation("PG3", key, g.where, "the wake direction of the inner (PG-domain) influence matrix is not tied to alpha_pg = 0")
            if s.cls_name == "ConvertVelocity":
                for ang in ("alpha", "beta"):
                    key = "%s: %s.%s %s" % (g.name, sname, ang, tag)
                    if ("pg_frame.%s_pg" % ang, "%s.%s" % (sname, ang)) in conns and not _promotes(s, ang):
                        chk.ok("PG3", key, g.where, "connected to pg_frame.%s_pg" % ang)
                    else:
                        chk.violation("PG3", key, g.where, "the inner free stream is not evaluated at %s_pg = 0" % ang)
        # zero-valued frame
        ivc = [e for e in gr.run.events if e.kind == "instance_call" and e.method == "add_output"]
        for e in ivc:
            nm = e.args[0].tmpl if e.args and e.args[0].kind == "str" else None
            if nm in ("alpha_pg", "beta_pg"):
                v = e.kwargs.get("val")
                key = "%s: pg_frame.%s = 0 %s" % (g.name, nm, tag)
                if v is not None and v.kind == "num" and v.sym is not None and v.sym.is_number and bool(v.sym.is_zero):
                    chk.ok("PG3", key, where(g, e.lineno), "val = 0")
                else:
                    chk.violation("PG3", key, where(g, e.lineno), "%s is not zero" % nm)
        # transformed geometry into the inner solve
        want = [("pg_transform.coll_pts_pg", "coll_pts"), ("pg_transform.bound_vecs_pg", "bound_vecs"), ("pg_transform.force_pts_pg", "force_pts")]
        for a, b in want:
            key = "%s: %s -> %s %s" % (g.name, a, b, tag)
            if (a, b) in conns:
                chk.ok("PG3", key, g.where, "connected")
            else:
                chk.violation("PG3", key, g.where, "the inner solve does not receive the transformed %s" % b)
        for a, b in sorted(conns):
            if b.startswith(("vortex_mesh.", "mtx_rhs.")) and "<" in b:
                key = "%s: %s <- %s %s" % (g.name, b.replace("[0]", "[i]"), a.replace("[0]", "[i]"), tag)
                if a.startswith("pg_transform.") and a.endswith("_pg"):
                    chk.ok("PG3", key, g.where, "transformed geometry")
                else:
                    chk.violation("PG3", key, g.where, "untransformed geometry %s reaches the PG-domain solve" % a)
        if "rotational_velocity" in subs:
            key = "%s: rotational velocities at collocation points %s" % (g.name, tag)
            if ("collocation_points.coll_pts", "rotational_velocity.coll_pts") in conns:
                chk.ok("PG3", key, g.where, "coll_pts -> rotational_velocity.coll_pts")
            else:
                src = [a for a, b in conns if b == "rotational_velocity.coll_pts"]
                chk.violation("PG3", key, g.where, "rotational_velocity.coll_pts is fed by %s, not by the collocation points" % (src or "nothing"))
        inv = [(a, b) for a, b in conns if b.startswith("inverse_pg_transform.")]
        key = "%s: forces through inverse transform %s" % (g.name, tag)
        if inv and all(a.startswith("panel_forces_surf.") and b.endswith("_pg") for a, b in inv):
            chk.ok("PG3", key, g.where, "panel_forces_surf.* -> inverse_pg_transform.*_pg")
        else:
            chk.violation("PG3", key, g.where, "sectional forces do not pass through the inverse Prandtl-Glauert transform: %s" % inv)


def _promotes(s, name):
    for k in ("promotes", "promotes_inputs"):
        v = s.kwargs.get(k)
        if v is not None and v.items is not None:
            for x in v.items:
                if x.kind == "str" and x.tmpl in (name, "*"):
                    return True
    return False


def run(chk, repo, tier):
    pg1(chk, repo)
    pg2(chk, repo)
    pg3(chk, repo)
