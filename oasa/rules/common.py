"""Shared helpers for the rule modules."""
from ..load import AnalysisError
from ..model import component_model, tmpl_match, EVAL_METHODS, LIN_METHODS

# Components that no public group instantiates (listed in the evidence as
# out-of-scope, never silently skipped).  Confirmed by the group model
# (rules/groups.py) on every run.
NEVER_INSTANTIATED = {
    "SparWithinWing": "no group instantiates it (checked against the group model)",
    "Energy": "no group instantiates it (checked against the group model)",
}

POSTPROCESSING = {
    "SurfaceContour": "mphys post-processing writer, no derivatives",
    "LiftDistribution": "mphys post-processing writer, no derivatives",
}


def where(cls_or_func, lineno=None):
    mod = cls_or_func.mod
    if lineno is None:
        lineno = cls_or_func.node.lineno
    return "%s:%d" % (mod.rel, lineno)


def sig_txt(sigma):
    if not sigma:
        return "{}"
    return "{" + ", ".join("%s%s" % ("" if v else "!", k) for k, v in sorted(sigma.items())) + "}"


def merged(a, b):
    d = dict(a)
    d.update(b)
    return d


def all_models(repo, chk=None, kinds=("explicit", "implicit")):
    out = []
    for c in repo.components(kinds):
        m = component_model(repo, c)
        out.append(m)
        if chk is not None:
            for mn, runs in m.runs.items():
                chk.analysed_method("%s.%s" % (c.name, mn))
                chk.valuations += len(runs)
    return out


def norm_name(t):
    """Template with the peeled placeholder identified with the generic one."""
    return t.replace("[0]", "[i]") if t else t
