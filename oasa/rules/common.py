"""Shared helpers for the rule modules."""
from ..load import AnalysisError
from ..model import component_model, tmpl_match, EVAL_METHODS, LIN_METHODS

# Components that no public group instantiates (listed in the evidence as
# out-of-scope, never silently skipped).  Confirmed by the group model
# (rules/groups.py) on every run.
class _Scope(dict):
    """Components that no public group instantiates, computed from the group
    model on first use (never a frozen list)."""

    _done = False

    def _fill(self):
        if self._done:
            return
        self._done = True
        from ..groups import STANDALONE_API, instantiated_classes
        from ..load import get_repo

        repo = get_repo()
        reach = instantiated_classes(repo)
        for c in repo.components():
            if c.name not in reach and c.name not in STANDALONE_API and c.name not in POSTPROCESSING:
                dict.__setitem__(self, c.name, "no public group instantiates it and it is not documented stand-alone API (group model, this run)")

    def __contains__(self, k):
        self._fill()
        return dict.__contains__(self, k)

    def __getitem__(self, k):
        self._fill()
        return dict.__getitem__(self, k)

    def items(self):
        self._fill()
        return dict.items(self)


NEVER_INSTANTIATED = _Scope()

POSTPROCESSING = {
    "SurfaceContour": "mphys post-processing writer, no derivatives",
    "LiftDistribution": "mphys post-processing writer, no derivatives",
}


def where(cls_or_func, lineno=None):
    mod = cls_or_func.mod
    if lineno is None:
        lineno = cls_or_func.node.lineno
    return "%s:%d" % (mod.rel, lineno)


def sig_txt(sigma):
    if not sigma:
        return "{}"
    return "{" + ", ".join("%s%s" % ("" if v else "!", k) for k, v in sorted(sigma.items())) + "}"


def merged(a, b):
    d = dict(a)
    d.update(b)
    return d


def all_models(repo, chk=None, kinds=("explicit", "implicit")):
    out = []
    for c in repo.components(kinds):
        m = component_model(repo, c)
        out.append(m)
        if chk is not None:
            for mn, runs in m.runs.items():
                chk.analysed_method("%s.%s" % (c.name, mn))
                chk.valuations += len(runs)
    return out


def norm_name(t):
    """Template with the peeled placeholder identified with the generic one."""
    return t.replace("[0]", "[i]") if t else t
