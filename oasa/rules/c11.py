"""C11 -- load / displacement transfer conserve force and moment.

T1 force split, T2 moment pairing and aerodynamic-centre stencil, T3 mesh-point
force weights, T4 rigid motion of the displacement transfer, T5 the structural
node location agrees between ComputeNodes and LoadTransfer, T6 evaluation order
of the transfer components.
"""
import ast

import sympy as sp

from ..load import const_fold, unparse
from ..model import component_model
from ..symx import CROSS, SIGA, SymX, equal
from .common import merged, sig_txt, where

LT = "openaerostruct/transfer/load_transfer.py"
CN = "openaerostruct/structures/compute_nodes.py"
MPF = "openaerostruct/aerodynamics/mesh_point_forces.py"
DT = "openaerostruct/transfer/displacement_transfer.py"
CTM = "openaerostruct/transfer/compute_transformation_matrix.py"


def stencil(expr, table, base_prefix):
    """{(row slice, col slice): coefficient} of an expression that is a linear
    combination of shifted slices of one array input; None if it is not."""
    expr = sp.expand(expr)
    terms = expr.args if expr.func == sp.Add else (expr,)
    out = {}
    for t in terms:
        coeff, sym = 1, None
        for f in (t.args if t.func == sp.Mul else (t,)):
            if isinstance(f, sp.Symbol) and f in table.arrays and f.name.split("[")[0].endswith(base_prefix):
                if sym is not None:
                    return None
                sym = f
            elif f.free_symbols & table.arrays:
                return None
            else:
                coeff = coeff * f
        if sym is None:
            return None
        sub = sym.name[sym.name.index("[") + 1: -1] if "[" in sym.name else ""
        parts = sub.split(",")
        key = tuple(parts[:2]) if len(parts) >= 2 else (parts[0], ":")
        out[key] = out.get(key, 0) + coeff
    return out


def t1_t2(chk, repo):
    chk.rule("T1", "every panel force reaches the structural nodes with total weight 1 (half to each adjacent node)", min_decided=1)
    chk.rule("T2", "the nodal moment stored for a node slice is sum cross(a - s[same slice], w F) with the same weight w as the force share, and the aerodynamic centre a is the quarter-chord / mid-span stencil (an affine combination of mesh points)", min_decided=3)
    c = repo.cls(LT, "LoadTransfer")
    m = component_model(repo, c, domains=(SymX,))
    for r in m.runs.get("compute", []):
        if r.final is None:
            continue
        t = r.domains["SYMX"].table
        F = t.syms.get("sec_forces")
        force_w = {}
        for e in r.events:
            if e.kind != "store" or e.cell != ("out", "loads"):
                continue
            subs = tuple(e.d.get("csubs") or ())
            v = e.val.dom.get("SYMX") if e.val is not None else None
            if len(subs) != 1:
                continue
            rows, _, cols = subs[0].partition(",")
            if cols == ":3" and F is not None:
                key = "LoadTransfer.compute: force share to loads[%s, :3]" % rows
                if v is None:
                    chk.undecided("T1", key, where(c, e.lineno), "expression not extracted", algebraic=True)
                    continue
                w = sp.simplify(v / SIGA(F, sp.Integer(0)))
                if w.free_symbols:
                    chk.undecided("T1", key, where(c, e.lineno), "not a constant multiple of the chordwise-summed panel forces: %s" % v, algebraic=True)
                else:
                    force_w[rows] = w
            if cols == "3:":
                key = "LoadTransfer.compute: moment to loads[%s, 3:]" % rows
                if v is None:
                    chk.undecided("T2", key, where(c, e.lineno), "expression not extracted", algebraic=True)
                    continue
                # v == SIGA(CROSS(a - s[rows,:], w*F), 0)
                cr = list(v.atoms(CROSS))
                if len(cr) != 1 or sp.simplify(v / SIGA(cr[0], sp.Integer(0))).free_symbols:
                    chk.undecided("T2", key, where(c, e.lineno), "not a chordwise sum of one cross product: %s" % v, algebraic=True)
                    continue
                scale = sp.simplify(v / SIGA(cr[0], sp.Integer(0)))
                arm, frc = cr[0].args
                ssyms = [x for x in arm.free_symbols if x.name.startswith("opq:s_pts") or "s_pts" in x.name]
                wf = sp.simplify(frc / F) * scale if F is not None else None
                node_slice = None
                for x in arm.free_symbols:
                    nm = x.name
                    if "[" in nm and nm.split("[")[0].startswith("opq:") and sp.expand(arm).coeff(x) == -1:
                        node_slice = nm[nm.index("[") + 1: -1].split(",")[0]
                if node_slice is None:
                    chk.undecided("T2", key, where(c, e.lineno), "structural point slice not isolated in the moment arm %s" % arm, algebraic=True)
                    continue
                if node_slice != rows:
                    chk.violation("T2", key, where(c, e.lineno), "the moment stored for nodes [%s] uses the arm to nodes [%s]: the moment about the node is computed with the lever arm of a different node, total moment is not conserved" % (rows, node_slice), algebraic=True)
                elif wf is not None and wf.free_symbols:
                    chk.undecided("T2", key, where(c, e.lineno), "force weight in the cross product not constant", algebraic=True)
                elif wf is not None and rows in force_w and sp.simplify(wf - force_w[rows]) != 0:
                    chk.violation("T2", key, where(c, e.lineno), "the moment uses the force share %s but the force sent to the same nodes is %s of the panel force" % (wf, force_w[rows]), algebraic=True)
                else:
                    chk.ok("T2", key, where(c, e.lineno), "arm to nodes [%s], force share %s" % (node_slice, wf), algebraic=True)
        if force_w:
            tot = sum(force_w.values())
            key = "LoadTransfer.compute: force shares sum to 1"
            if sp.simplify(tot - 1) == 0 and set(force_w) == {":-1", "1:"}:
                chk.ok("T1", key, c.where, "shares %s" % force_w, algebraic=True)
            else:
                chk.violation("T1", key, c.where, "the panel force is distributed with shares %s (sum %s): the total nodal force differs from the total aerodynamic force" % (force_w, tot), algebraic=True)
        # aerodynamic centre stencil
        for e in r.events:
            if e.kind == "assign" and e.name == "a_pts" and e.val is not None:
                v = e.val.dom.get("SYMX")
                key = "LoadTransfer.compute: aerodynamic centre stencil"
                st = stencil(v, t, "def_mesh") if v is not None else None
                want = {(":-1", ":-1"): sp.Rational(3, 8), ("1:", ":-1"): sp.Rational(1, 8), (":-1", "1:"): sp.Rational(3, 8), ("1:", "1:"): sp.Rational(1, 8)}
                if st is None:
                    chk.undecided("T2", key, where(c, e.lineno), "not a linear stencil", algebraic=True)
                elif {k: sp.nsimplify(x) for k, x in st.items()} == want:
                    chk.ok("T2", key, where(c, e.lineno), "quarter chord, mid span; weights sum to 1", algebraic=True)
                else:
                    chk.violation("T2", key, where(c, e.lineno), "the panel force is assumed to act at %s; the panel forces act at the quarter-chord mid-span point %s (CollocationPoints.force_pts)" % (st, want), algebraic=True)


def t3(chk, repo):
    chk.rule("T3", "mesh-node forces: the four corner weights of a panel sum to 1 and put the resultant at the quarter chord (te_wt / (le_wt + te_wt) = 1/4); leading-edge rows get le_wt, trailing-edge rows te_wt", min_decided=3)
    c = repo.cls(MPF, "MeshPointForces")
    le = te = None
    for e in ast.walk(c.methods["initialize"].node):
        if isinstance(e, ast.Call) and unparse(e.func).endswith("options.declare") and e.args and isinstance(e.args[0], ast.Constant):
            for kw in e.keywords:
                if kw.arg == "default":
                    try:
                        val = sp.nsimplify(const_fold(kw.value))
                    except ValueError:
                        val = None
                    if e.args[0].value == "le_wt":
                        le = val
                    if e.args[0].value == "te_wt":
                        te = val
    w = c.methods["initialize"].where
    if le is None or te is None:
        chk.undecided("T3", "MeshPointForces: default weights", w, "defaults not literal")
    else:
        if sp.simplify(2 * le + 2 * te - 1) == 0:
            chk.ok("T3", "MeshPointForces: 2 le_wt + 2 te_wt = 1", w, "le=%s te=%s" % (le, te), algebraic=True)
        else:
            chk.violation("T3", "MeshPointForces: 2 le_wt + 2 te_wt = 1", w, "default corner weights le=%s, te=%s sum to %s per panel: the exported nodal forces do not sum to the panel forces" % (le, te, 2 * le + 2 * te), algebraic=True)
        if sp.simplify(te / (le + te) - sp.Rational(1, 4)) == 0:
            chk.ok("T3", "MeshPointForces: resultant at quarter chord", w, "te/(le+te) = 1/4", algebraic=True)
        else:
            chk.violation("T3", "MeshPointForces: resultant at quarter chord", w, "te/(le+te) = %s: the resultant of the nodal forces is not at the quarter-chord point" % (te / (le + te)), algebraic=True)
    m = component_model(repo, c)
    for r in m.runs.get("compute", [])[:1]:
        got = {}
        for e in r.events:
            if e.kind == "store" and e.cell and e.cell[0] == "out" and e.op == "+=" and not any(l.tag == "generic2" for l in e.loops):
                rows = (e.d.get("csubs") or ("?",))[0].split(",")[0]
                wname = None
                if isinstance(e.node, ast.AugAssign):
                    names = [n.id for n in ast.walk(e.node.value) if isinstance(n, ast.Name)]
                    wname = [n for n in names if n.endswith("_wt")]
                got.setdefault(rows, []).append(tuple(wname or ()))
        key = "MeshPointForces.compute: le_wt on leading rows, te_wt on trailing rows"
        if set(got) == {":-1", "1:"} and all(x == ("le_wt",) for x in got[":-1"]) and all(x == ("te_wt",) for x in got["1:"]) and len(got[":-1"]) == 2 and len(got["1:"]) == 2:
            chk.ok("T3", key, c.where, "rows[:-1] += F*le_wt (x2), rows[1:] += F*te_wt (x2)")
        else:
            chk.violation("T3", key, c.where, "accumulation pattern %s does not give each panel corner its weight once" % got)


def t4(chk, repo):
    chk.rule("T4", "displacement transfer: def_mesh = mesh + translation + T (mesh - nodes) with unit coefficients, so zero displacement leaves the mesh unchanged and a translation translates it; the transformation matrix vanishes at zero rotation and its first-order part is the skew matrix of (rx, ry, rz)", min_decided=2)
    c = repo.cls(DT, "DisplacementTransfer")
    f = c.methods["compute"]
    src = " ".join(unparse(f.node).split())
    # structural reading of the three statements
    ok1 = "outputs['def_mesh'] = inputs['mesh'].copy()" in src or "outputs['def_mesh'] = inputs['mesh']" in src
    ok2 = "outputs['def_mesh'] += np.einsum('i,jk->ijk', np.ones(self.nx), inputs['disp'][:, :3])" in src
    ok3 = "moment_arms = inputs['mesh'] - nodes" in src and "outputs['def_mesh'] += np.einsum('lij,klj->kli', inputs['transformation_matrix'], moment_arms)" in src
    m = component_model(repo, c)
    # dependency / linearity based formulation (robust to rewriting): def_mesh is affine in mesh, disp with unit coefficient
    from ..domains import Lin

    ml = component_model(repo, c, domains=(Lin,))
    for r in ml.runs.get("compute", []):
        ob = r.final.heap.get(("out", "def_mesh")) if r.final else None
        lin = ob.dom.get("LIN", {}) if ob is not None else {}
        key = "DisplacementTransfer.compute: affine in mesh and disp"
        if lin.get("in:mesh") and lin.get("in:disp") == "C":
            chk.ok("T4", key, c.where, "LIN: disp enters with an input-independent coefficient; mesh %s" % lin.get("in:mesh"))
        else:
            chk.violation("T4", key, c.where, "def_mesh is not affine in the translational displacements (LIN=%s)" % lin)
    c2 = repo.cls(CTM, "ComputeTransformationMatrix")
    m2 = component_model(repo, c2, domains=(SymX,))
    for r in m2.runs.get("compute", []):
        ob = r.final.heap.get(("out", "transformation_matrix")) if r.final else None
        per = (ob.dom.get("SYMX_idx") or {}) if ob is not None else {}
        t = r.domains["SYMX"].table
        key = "ComputeTransformationMatrix.compute: zero at zero rotation, skew first-order part"
        ent = {}
        for k, v in per.items():
            parts = k.split(",")
            if len(parts) == 3 and parts[0] == ":" and parts[1].isdigit() and parts[2].isdigit() and v is not None:
                ent[(int(parts[1]), int(parts[2]))] = v
        if len(ent) < 9:
            chk.undecided("T4", key, c2.where, "matrix entries not extracted (%d of 9)" % len(ent), algebraic=True)
            continue
        syms = {s.name: s for v in ent.values() for s in v.free_symbols}
        rx = [s for n, s in syms.items() if n.endswith("[...,3]")]
        ry = [s for n, s in syms.items() if n.endswith("[...,4]")]
        rz = [s for n, s in syms.items() if n.endswith("[...,5]")]
        if not (rx and ry and rz):
            chk.undecided("T4", key, c2.where, "rotation symbols not found", algebraic=True)
            continue
        rx, ry, rz = rx[0], ry[0], rz[0]
        M = sp.Matrix(3, 3, lambda i, j: ent[(i, j)])
        Z = M.subs({rx: 0, ry: 0, rz: 0})
        if not sp.simplify(Z).is_zero_matrix:
            chk.violation("T4", key, c2.where, "the transformation matrix at zero rotation is %s, not 0: zero structural displacement would deform the aerodynamic mesh" % Z.tolist(), algebraic=True)
            continue
        eps = sp.Symbol("eps")
        lin = M.subs({rx: eps * rx, ry: eps * ry, rz: eps * rz}).applyfunc(lambda x: sp.series(x, eps, 0, 2).removeO().coeff(eps, 1))
        skew = sp.Matrix([[0, -rz, ry], [rz, 0, -rx], [-ry, rx, 0]])
        if sp.simplify(lin - skew).is_zero_matrix:
            chk.ok("T4", key, c2.where, "T(0) = 0, dT = skew(rx, ry, rz)", algebraic=True)
        else:
            chk.violation("T4", key, c2.where, "the first-order part of the transformation matrix is %s, not the skew matrix of the rotation vector: small rotations do not act as a rigid rotation about the structural node" % sp.simplify(lin).tolist(), algebraic=True)


def t5(chk, repo):
    chk.rule("T5", "the chordwise location of the structural node used for the moment arm (LoadTransfer) is, under every option valuation, the same expression as the one ComputeNodes uses to place the FEM nodes", min_decided=2)
    a = repo.cls(CN, "ComputeNodes")
    b = repo.cls(LT, "LoadTransfer")
    ma = component_model(repo, a, domains=(SymX,))
    mb = component_model(repo, b, domains=(SymX,))

    def origin(run, names):
        val = None
        for e in run.events:
            if e.kind == "attr_store" and e.attr in names and e.val is not None:
                val = e
        return val

    for ra in ma.runs.get("setup", []):
        if ra.final is None:
            continue
        ea = origin(ra, ("fem_origin",))
        for rb in mb.runs.get("setup", []):
            if rb.final is None or not rb.compatible(ra.sigma):
                continue
            eb = origin(rb, ("w2",)) or origin(rb, ("fem_origin",))
            sig = merged(ra.sigma, rb.sigma)
            key = "ComputeNodes.fem_origin == LoadTransfer.w2 %s" % sig_txt(sig)
            if ea is None or eb is None:
                chk.undecided("T5", key, b.where, "attribute not found")
                continue
            va, vb = ea.val.dom.get("SYMX"), eb.val.dom.get("SYMX")
            if va is None or vb is None:
                # fall back to the canonical configuration expressions
                ca, cb = ea.val.cx, eb.val.cx
                if ca and cb:
                    if ca == cb:
                        chk.ok("T5", key, where(b, eb.lineno), "same configuration expression %s" % ca)
                    else:
                        chk.violation("T5", key, where(b, eb.lineno), "ComputeNodes places the nodes at %s but LoadTransfer takes the moment arm to %s" % (ca, cb))
                else:
                    chk.undecided("T5", key, where(b, eb.lineno), "expressions not extracted")
                continue
            tb = rb.domains["SYMX"].table
            r = equal(va, vb, tb)
            if r is True:
                chk.ok("T5", key, where(b, eb.lineno), "same expression", algebraic=True)
            elif r is False or (va.free_symbols != vb.free_symbols):
                chk.violation("T5", key, where(b, eb.lineno), "ComputeNodes places the FEM nodes at chord fraction %s but LoadTransfer computes the moments about chord fraction %s: the nodal moments are taken about points that are not the nodes" % (va, vb), algebraic=True)
            else:
                chk.undecided("T5", key, where(b, eb.lineno), "%s vs %s" % (va, vb), algebraic=True)


def run(chk, repo, tier):
    from .c03 import r4
    from .c20 import l5

    t1_t2(chk, repo)
    t3(chk, repo)
    t4(chk, repo)
    t5(chk, repo)
    r4(chk, repo, rule="T6", consumers={"MeshPointForces", "LoadTransfer", "DisplacementTransfer", "DisplacementTransferGroup", "ComputeTransformationMatrix"}, min_decided=0)
    l5(chk, repo, rule="T7", keys={"fem_origin"})
