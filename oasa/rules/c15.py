"""C15 -- stress recovery and failure aggregation.

A1 max-shifted log-sum-exp form of the KS aggregate (and exact failure), A2 von
Mises shape (sqrt of a quadratic form, positively homogeneous of degree one in
the displacement field; strength factors divide the whole stress), A3 rigid-body
modes give zero stress.
"""
import sympy as sp

from ..model import component_model
from ..symx import MAXF, SIG, SymX, equal
from .common import sig_txt, where

S = "openaerostruct/structures/"
DISP_ATOMS = ("u0x", "u0y", "u0z", "r0x", "r0y", "r0z", "u1x", "u1y", "u1z", "r1x", "r1y", "r1z")


def a1(chk, repo):
    chk.rule("A1", "KS failure = fmax + (1/rho) log sum exp(rho (g - fmax)) with fmax = max g over the same g = stress/yield - 1 on every path (no input-valued branch: the shift is always the maximum, which gives max <= KS <= max + ln(N)/rho and overflow safety); exact failure = stress/yield - 1", min_decided=2)
    c = repo.cls(S + "failure_ks.py", "FailureKS")
    m = component_model(repo, c, domains=(SymX,))
    for r in m.runs.get("compute", []):
        if r.final is None:
            continue
        tests = [e for e in r.events if e.kind == "test" and any(d.startswith("in:") for d in e.dep)]
        key = "FailureKS.compute: single formula %s" % sig_txt(r.sigma)
        if tests:
            chk.violation("A1", key, where(c, tests[0].lineno), "the aggregate is computed differently depending on the input-valued test '%s': the max-shift is not applied on every path, so the bound max <= KS <= max + ln(N)/rho and the overflow/underflow safety do not hold for all stress levels" % tests[0].pred)
            continue
        chk.ok("A1", key, c.where, "no input-valued branch")
        ob = r.final.heap.get(("out", "failure"))
        e = ob.dom.get("SYMX") if ob is not None else None
        t = r.domains["SYMX"].table
        key = "FailureKS.compute: max-shifted log-sum-exp %s" % sig_txt(r.sigma)
        if e is None:
            chk.undecided("A1", key, c.where, "expression not extracted", algebraic=True)
            continue
        mx = list(e.atoms(MAXF))
        if len(mx) != 1:
            chk.violation("A1", key, c.where, "the aggregate %s does not contain exactly one maximum of the element failures (found %d)" % (e, len(mx)), algebraic=True)
            continue
        g = mx[0].args[0]
        rho = [s for s in e.free_symbols if "rho" in s.name]
        if not rho:
            chk.undecided("A1", key, c.where, "aggregation parameter not found", algebraic=True)
            continue
        rho = rho[0]
        want = mx[0] + sp.log(SIG(sp.exp(rho * (g - mx[0])))) / rho
        r_ = equal(e, want, t)
        if r_ is True:
            chk.ok("A1", key, c.where, "failure = max(g) + log(sum(exp(rho (g - max(g)))))/rho with g = %s" % g, algebraic=True)
        else:
            chk.violation("A1", key, c.where, "the aggregate is %s, not max(g) + log(sum(exp(rho (g - max(g)))))/rho for g = %s" % (e, g), algebraic=True)
        # g itself is stress/yield - 1
        vm = t.syms.get("vonmises")
        ys = [s for s in g.free_symbols if "yield" in s.name]
        if vm is not None and ys and sp.simplify(g - (vm / ys[0] - 1)) == 0:
            chk.ok("A1", "FailureKS.compute: g = stress/yield - 1", c.where, "", algebraic=True)
        else:
            chk.violation("A1", "FailureKS.compute: g = stress/yield - 1", c.where, "element failure measure is %s" % g, algebraic=True)
    c = repo.cls(S + "failure_exact.py", "FailureExact")
    m = component_model(repo, c, domains=(SymX,))
    for r in m.runs.get("compute", []):
        ob = r.final.heap.get(("out", "failure")) if r.final else None
        e = ob.dom.get("SYMX") if ob is not None else None
        t = r.domains["SYMX"].table
        vm = t.syms.get("vonmises")
        key = "FailureExact.compute %s" % sig_txt(r.sigma)
        if e is None or vm is None:
            # the allowable used as divisor: it must be the yield stress of the surface dictionary itself
            alw = None
            for pa in m.phase_attrs.values():
                for k_, v_ in pa.items():
                    if k_ == "sigma":
                        alw = v_
            if alw is not None and not (alw.kind == "cfgval" and alw.cx and alw.cx.endswith("['yield']")):
                chk.violation("A1", key, c.where, "the allowable self.sigma is not the surface's yield stress itself (it is a derived %s value%s): the exact failure is no longer stress / yield - 1 for every entry (strength factors are already applied by the stress component)" % (alw.kind, (" from " + alw.cx) if alw.cx else ""))
            else:
                chk.undecided("A1", key, c.where, "expression not extracted", algebraic=True)
            continue
        ys = [s for s in e.free_symbols if "yield" in s.name]
        if ys and sp.simplify(e - (vm / ys[0] - 1)) == 0:
            chk.ok("A1", key, c.where, "failure = stress/yield - 1", algebraic=True)
        else:
            chk.violation("A1", key, c.where, "exact failure is %s, not stress/yield - 1" % e, algebraic=True)


def _entries(run, cell_name, local=None):
    """row-generic entries {column: expr} of the stress array."""
    out = {}
    for oid, ob in run.final.heap.items():
        per = ob.dom.get("SYMX_idx")
        if not per:
            continue
        if not ((isinstance(oid, tuple) and oid[0] == "out" and oid[1] == cell_name)):
            continue
        for k, v in per.items():
            parts = k.split(",")
            if len(parts) == 2 and parts[0] == "*" and parts[1].isdigit():
                out[int(parts[1])] = v
    return out


def a2_a3(chk, repo):
    chk.rule("A2", "every stored von Mises stress is k * sqrt(Q) with Q a quadratic form of the element's local displacements (non-negative, positively homogeneous of degree one in the displacement field) and a strength factor divides the whole stress", min_decided=4)
    chk.rule("A3", "rigid-body translation and small rigid rotation of an element give zero stress", min_decided=4)
    for rel, cname in ((S + "vonmises_tube.py", "VonMisesTube"), (S + "vonmises_wingbox.py", "VonMisesWingbox")):
        c = repo.cls(rel, cname)
        m = component_model(repo, c, domains=(SymX,))
        for r in m.runs.get("compute", []):
            if r.final is None:
                continue
            ents = _entries(r, "vonmises")
            t = r.domains["SYMX"].table
            if not ents:
                chk.undecided("A2", "%s.compute %s" % (cname, sig_txt(r.sigma)), c.where, "per-element stress expressions not extracted", algebraic=True)
                continue
            lam = sp.Symbol("lam_", positive=True)
            for col, e in sorted(ents.items()):
                key = "%s.vonmises[:, %d] %s" % (cname, col, sig_txt(r.sigma))
                if e is None:
                    chk.undecided("A2", key, c.where, "expression not extracted", algebraic=True)
                    continue
                atoms = {s for s in e.free_symbols if s.name.startswith("opq:") and s.name.split(":")[1].split("@")[0] in DISP_ATOMS}
                if not atoms:
                    chk.undecided("A2", key, c.where, "local displacement atoms not found in %s" % e, algebraic=True)
                    continue
                scaled = e.subs({a: lam * a for a in atoms}, simultaneous=True)
                ratio = sp.simplify(scaled / e)
                sq = sp.simplify(sp.expand(e**2))
                if sp.simplify(ratio - lam) == 0:
                    chk.ok("A2", key + ": homogeneous", c.where, "f(lam u) = lam f(u)", algebraic=True)
                else:
                    chk.violation("A2", key + ": homogeneous", c.where, "the stress does not scale linearly with the displacement field: f(lam u)/f(u) = %s" % ratio, algebraic=True)
                # strength factors divide the whole stress
                for fs in [s for s in e.free_symbols if "strength_factor" in s.name or "tssf" in s.name]:
                    k2 = key + ": strength factor divides the whole stress"
                    if sp.simplify(sp.diff(e * fs, fs)) == 0:
                        chk.ok("A2", k2, c.where, "stress * factor is independent of the factor", algebraic=True)
                    else:
                        chk.violation("A2", k2, c.where, "the strength factor %s does not scale the complete combined stress (stress*factor still depends on it): only part of the stress combination is divided by it" % fs.name, algebraic=True)
                # rigid body modes
                by = {a.name.split(":")[1].split("@")[0]: a for a in atoms}
                L = [s for s in e.free_symbols if s.name.startswith("opq:L@")]
                tr = {}
                for ax in "xyz":
                    if "u1" + ax in by and "u0" + ax in by:
                        tr[by["u1" + ax]] = by["u0" + ax]
                for nm in ("r0x", "r0y", "r0z", "r1x", "r1y", "r1z"):
                    if nm in by:
                        tr[by[nm]] = 0
                zt = sp.simplify(e.subs(tr, simultaneous=True))
                k3 = key + ": rigid translation"
                if zt == 0:
                    chk.ok("A3", k3, c.where, "zero stress", algebraic=True)
                else:
                    chk.violation("A3", k3, c.where, "a rigid translation of the element gives the stress %s" % zt, algebraic=True)
                if L:
                    th = sp.Symbol("theta_", real=True)
                    ok_all = True
                    detail = []
                    for axis, (rot, disp_ax, sgn) in {"z": ("z", "y", 1), "y": ("y", "z", -1)}.items():
                        sub = {}
                        for nm in ("r0" + rot, "r1" + rot):
                            if nm in by:
                                sub[by[nm]] = th
                        for nm in ("r0x", "r1x", "r0y", "r1y", "r0z", "r1z"):
                            if nm in by and by[nm] not in sub:
                                sub[by[nm]] = 0
                        if "u1" + disp_ax in by and "u0" + disp_ax in by:
                            sub[by["u1" + disp_ax]] = by["u0" + disp_ax] + sgn * th * L[0]
                        for ax in "xyz":
                            if ax != disp_ax and "u1" + ax in by and "u0" + ax in by:
                                sub[by["u1" + ax]] = by["u0" + ax]
                        zr = sp.simplify(e.subs(sub, simultaneous=True))
                        if zr != 0:
                            ok_all = False
                            detail.append("rotation about local %s gives %s" % (rot, zr))
                    k4 = key + ": rigid rotation"
                    if ok_all:
                        chk.ok("A3", k4, c.where, "zero stress for small rigid rotations about the local y and z axes", algebraic=True)
                    else:
                        chk.violation("A3", k4, c.where, "; ".join(detail), algebraic=True)


def run(chk, repo, tier):
    a1(chk, repo)
    a2_a3(chk, repo)
