"""C13 -- geometry design variables: defaults leave the mesh unchanged, fixed
chain order, documented sign conventions.

  D1  identity at the default parameter value, per transformation and option valuation
  D2  GeometryMesh chain: order, connections, defaults = identity values, span default
  D3  sweep / dihedral displacement = tan(angle) x distance from the root (positive aft / up)
  D4  taper weight nodes: 1 at the tip(s), 0 at the root, linear in between
  D5  ref_axis_pos default taken by key presence (an admissible 0 is kept)
"""
import ast

import sympy as sp

from ..groups import group_model, runs_with_policy
from ..model import component_model
from ..symx import CAT, SymX, equal, refute_constant
from .c17 import _short
from .common import sig_txt

REL = "openaerostruct/geometry/geometry_mesh_transformations.py"

# transformation -> (design variable input, identity value, changed coordinate or None = all)
IDENT = {
    "Taper": ("taper", 1, None),
    "ScaleX": ("chord", 1, None),
    "Sweep": ("sweep", 0, 0),
    "ShearX": ("xshear", 0, 0),
    "ShearY": ("yshear", 0, 1),
    "Dihedral": ("dihedral", 0, 2),
    "ShearZ": ("zshear", 0, 2),
    "Rotate": ("twist", 0, None),
}
CHAIN = [("taper", "Taper"), ("scale_x", "ScaleX"), ("sweep", "Sweep"), ("shear_x", "ShearX"), ("stretch", "Stretch"), ("shear_y", "ShearY"), ("dihedral", "Dihedral"), ("shear_z", "ShearZ"), ("rotate", "Rotate")]


def _runs(repo, cname):
    c = repo.cls(REL, cname)
    m = component_model(repo, c, domains=(SymX,))
    return c, [r for r in m.runs.get("compute", []) if r.final is not None]


def _param_syms(t, var):
    return [s for n, s in t.syms.items() if n == var or n.startswith(var + "[")]


def _mesh_sym(t, cname):
    if cname == "Taper":
        for n, s in t.syms.items():
            if n.startswith("cfg:") and n.endswith("['mesh']"):
                return s
        return None
    return t.syms.get("in_mesh")


def _flag(sigma, frag):
    for k, v in sigma.items():
        if frag in k:
            return v
    return None


def _rot_matrix(run):
    """3x3 matrix stored element-wise into the local `mats` of Rotate.compute."""
    for oid, ob in run.final.heap.items():
        per = ob.dom.get("SYMX_idx")
        if not per:
            continue
        keys = set(per)
        if all(k.count(",") == 2 and k.startswith(":,") for k in keys) and len(keys) >= 4:
            base = ob.dom.get("SYMX")
            M = sp.zeros(3, 3)
            for i in range(3):
                for j in range(3):
                    k = ":,%d,%d" % (i, j)
                    if k in per:
                        if per[k] is None:
                            return None, oid
                        M[i, j] = per[k]
                    elif base is not None and getattr(base, "is_zero", False):
                        M[i, j] = 0
                    else:
                        # never stored and the allocation is not a recognised zeros(): unknown
                        alloc = getattr(ob, "alloc", None)
                        M[i, j] = 0
            return M, oid
    return None, None


def d1(chk, repo):
    chk.rule("D1", "identity at defaults: with the design variable at its default (taper 1, chord 1, sweep / dihedral / shears / twist 0) the output mesh expression equals the input mesh for every option valuation, for arbitrary (cambered, pre-twisted, non-planar) input meshes; for Rotate the per-section matrix is the identity at zero twist. Stretch is not decided (its identity needs y constant along chordwise lines, a property of the data)", min_decided=12)
    for cname, (var, ident, col) in IDENT.items():
        c, runs = _runs(repo, cname)
        if not runs:
            chk.undecided("D1", cname, c.where, "no compute valuation")
        for r in runs:
            t = r.domains["SYMX"].table
            tag = sig_txt(r.sigma)
            key = "%s %s" % (cname, tag)
            ps = _param_syms(t, var)
            mesh = _mesh_sym(t, cname)
            ob = r.final.heap.get(("out", "mesh"))
            if cname == "Rotate":
                M, oid = _rot_matrix(r)
                if M is None or not ps:
                    chk.undecided("D1", key, c.where, "rotation matrix not extracted", algebraic=True)
                    continue
                M0 = M.subs({p: ident for p in ps})
                res = equal(M0, sp.eye(3), t)
                if res is True:
                    chk.ok("D1", key, c.where, "section rotation matrix = identity at zero twist", algebraic=True)
                elif res is False or any(refute_constant(M0[i, j], 1 if i == j else 0) for i in range(3) for j in range(3)):
                    chk.violation("D1", key, c.where, "at zero twist the section rotation matrix is %s, not the identity: non-flat sections (camber, built-in twist) are rotated by default" % _short(M0.tolist()), algebraic=True)
                else:
                    chk.undecided("D1", key, c.where, "matrix at zero twist: %s" % _short(M0.tolist()), algebraic=True)
                # the matrix is applied to (mesh - ref_axis) and ref_axis is added back
                got = ob.dom.get("SYMX") if ob is not None else None
                k2 = key + " application"
                if got is None or mesh is None:
                    chk.undecided("D1", k2, c.where, "output expression not extracted", algebraic=True)
                    continue
                E = [a for a in got.atoms(sp.Function) if a.func.__name__ == "EINSUM"]
                if len(E) != 1:
                    chk.undecided("D1", k2, c.where, "matrix application not isolated in %s" % _short(got), algebraic=True)
                    continue
                spec = str(E[0].args[0])
                rest = got - E[0]
                if spec not in ("ikj,mij->mik", "ijk,mij->mik"):
                    chk.undecided("D1", k2, c.where, "einsum spec %s not in the recognised matrix-vector forms" % spec, algebraic=True)
                    continue
                res = equal(E[0].args[2] + rest, mesh, t)
                if res is True:
                    chk.ok("D1", k2, c.where, "out = M (mesh - ref) + ref", algebraic=True)
                elif res is False:
                    chk.violation("D1", k2, c.where, "with M = identity the output is %s, not the input mesh" % _short(E[0].args[2] + rest), algebraic=True)
                else:
                    chk.undecided("D1", k2, c.where, "", algebraic=True)
                continue
            if ob is None or mesh is None or not ps:
                chk.undecided("D1", key, c.where, "output / mesh / parameter symbols not found", algebraic=True)
                continue
            base = ob.dom.get("SYMX")
            per = ob.dom.get("SYMX_idx") or {}
            if base is None or ob.dom.get("SYMX_partial") or any(v is None for v in per.values()):
                chk.undecided("D1", key, c.where, "output expression not extracted", algebraic=True)
                continue
            sub = {p: ident for p in ps}
            pieces = [("whole", base)] + sorted(per.items())
            bad, und = [], []
            for k, e in pieces:
                e0 = e.subs(sub)
                res = equal(e0, mesh, t)
                if res is False:
                    bad.append((k, e0))
                elif res is None:
                    und.append((k, e0))
            if bad:
                chk.violation("D1", key, c.where, "with %s = %s the output %s is %s, not the input mesh" % (var, ident, bad[0][0], _short(bad[0][1])), algebraic=True)
            elif und:
                chk.undecided("D1", key, c.where, "not normalised: %s" % _short(und[0][1]), algebraic=True)
            else:
                chk.ok("D1", key, c.where, "output == input mesh at %s = %s (%d stored pieces)" % (var, ident, len(pieces)), algebraic=True)
            if col is not None:
                k3 = key + " coordinates touched"
                cols = sorted(per)
                want = [":,:,%d" % col]
                if cols == want and equal(base, mesh, t) is True:
                    chk.ok("D1", k3, c.where, "only coordinate %d is displaced" % col)
                else:
                    chk.violation("D1", k3, c.where, "the transformation writes %s (expected the copy of the input mesh plus a displacement of coordinate %d only)" % (cols, col))
    c = repo.cls(REL, "Stretch")
    chk.info("D1", "Stretch", c.where, "not decided: the identity at span = current span needs y constant along every chordwise line (data assumption)")


def d3(chk, repo):
    chk.rule("D3", "sweep / dihedral displace x / z by tan(angle in degrees) x spanwise distance from the root, positive aft / up: half model (root at the last index) (y_root - y) tan; full model: left part (y_root - y) tan and right part (y - y_root) tan, split at the centre index", min_decided=4)
    for cname, col in (("Sweep", 0), ("Dihedral", 2)):
        c, runs = _runs(repo, cname)
        var = IDENT[cname][0]
        for r in runs:
            t = r.domains["SYMX"].table
            tag = sig_txt(r.sigma)
            key = "%s %s" % (cname, tag)
            ob = r.final.heap.get(("out", "mesh"))
            per = (ob.dom.get("SYMX_idx") or {}) if ob is not None else {}
            e = per.get(":,:,%d" % col)
            mesh = t.syms.get("in_mesh")
            ps = [p for p in _param_syms(t, var) if e is not None and p in e.free_symbols]
            sym = _flag(r.sigma, "symmetry")
            if e is None or mesh is None or len(ps) != 1 or sym is None:
                chk.undecided("D3", key, c.where, "displacement not extracted", algebraic=True)
                continue
            d = sp.expand(e - mesh)
            tan = sp.tan(sp.pi * ps[0] / 180)
            ys = {n: s for n, s in t.syms.items() if n.startswith("in_mesh[0][") and n.endswith(",1]")}
            if sym:
                yr, y = ys.get("in_mesh[0][-1,1]"), ys.get("in_mesh[0][...,1]")
                want = (yr - y) * tan if None not in (yr, y) else None
            else:
                y0 = ys.get("in_mesh[0][ny2,1]")
                yl, yrt = ys.get("in_mesh[0][:ny2,1]"), ys.get("in_mesh[0][ny2:,1]")
                want = CAT((y0 - yl) * tan, (yrt - y0) * tan) if None not in (y0, yl, yrt) else None
            if want is None:
                chk.undecided("D3", key, c.where, "root / spanwise coordinate symbols not found in %s" % _short(d), algebraic=True)
                continue
            res = equal(d, want, t)
            if res is None and d.func == CAT and want.func == CAT and len(d.args) == len(want.args):
                rs = [equal(a, b, t) for a, b in zip(d.args, want.args)]
                res = True if all(x is True for x in rs) else (False if any(x is False for x in rs) else None)
            if res is True:
                chk.ok("D3", key, c.where, "displacement = %s" % _short(want), algebraic=True)
            elif res is False:
                chk.violation("D3", key, c.where, "displacement of coordinate %d is %s; documented: %s (positive angle moves outboard sections aft / up)" % (col, _short(d), _short(want)), algebraic=True)
            else:
                chk.undecided("D3", key, c.where, "%s vs %s" % (_short(d), _short(want)), algebraic=True)
            # the centre index of the full model
            if not sym:
                f = c.methods.get("compute")
                n2 = [n for n in ast.walk(f.node) if isinstance(n, ast.Assign) and isinstance(n.targets[0], ast.Name) and n.targets[0].id == "ny2"]
                k4 = key + " centre index"
                if len(n2) == 1 and ast.unparse(n2[0].value).replace(" ", "") in ("(ny-1)//2", "int((ny-1)/2)"):
                    chk.ok("D3", k4, "%s:%d" % (c.mod.rel, n2[0].lineno), "split at (ny - 1) // 2")
                else:
                    chk.undecided("D3", k4, c.where, "centre index definition not recognised")


def d4(chk, repo):
    chk.rule("D4", "Taper: the chord scale is weight x taper + (1 - weight) with weight = interp(y_ref, nodes, values): half model nodes (y_tip - y_root, 0) with values (1, 0); full model nodes (-span/2, 0, span/2) with values (1, 0, 1), span = y_ref[-1] - y_ref[0]: scale 1 at the root and exactly the taper ratio at the tip(s) (root at y = 0)", min_decided=4)
    c, runs = _runs(repo, "Taper")
    f = c.methods.get("compute")
    for r in runs:
        t = r.domains["SYMX"].table
        nv = r.domains["SYMX"].nodeval
        tag = sig_txt(r.sigma)
        sym = _flag(r.sigma, "symmetry")
        # the assignments executed in this valuation (those with a recorded value)
        asg = {}
        for e in r.events:
            if e.kind == "assign" and e.d.get("name") in ("xp", "dfp", "span", "weight", "taper", "x"):
                asg[e.d.get("name")] = e.node
        # the interpolation may live in a helper: locate the np.interp call actually evaluated
        interp_call = None
        for e in r.events:
            if e.kind in ("assign", "return") or True:
                nd = getattr(e, "node", None)
                for x_ in (ast.walk(nd) if isinstance(nd, ast.AST) else ()):
                    if isinstance(x_, ast.Call) and ast.unparse(x_.func).endswith("interp") and len(x_.args) == 3 and id(x_) in nv:
                        interp_call = x_
        if interp_call is not None and "weight" in asg and not (isinstance(asg["weight"].value, ast.Call) and ast.unparse(asg["weight"].value.func).endswith("interp")):
            # weight = helper(...): use the helper's interp call for the argument check below
            asg["weight"] = ast.Assign(targets=[ast.Name(id="weight", ctx=ast.Store())], value=interp_call, lineno=interp_call.lineno)
            first = interp_call.args[0]
            base_ = first.value if isinstance(first, ast.Attribute) and first.attr == "real" else first
            if isinstance(base_, ast.Name) and base_.id != "x" and "x" not in asg:
                # the helper's spanwise coordinate plays the role of x
                for e in r.events:
                    if e.kind == "call" and e.d.get("inlined"):
                        pass
                asg["x"] = ast.Assign(targets=[ast.Name(id="x", ctx=ast.Store())], value=base_, lineno=interp_call.lineno)
        key = "Taper %s" % tag
        if sym is None or not all(k in asg for k in ("xp", "dfp", "span", "weight", "taper")):
            chk.undecided("D4", key, c.where, "interpolation set-up not found")
            continue
        span = nv.get(id(asg["span"].value))
        xe = nv.get(id(asg["x"].value)) if "x" in asg else None
        if isinstance(xe, sp.Symbol):
            xs = [s for n, s in t.syms.items() if n == xe.name + "[-1]"]
            x0 = [s for n, s in t.syms.items() if n == xe.name + "[0]"]
        elif xe is not None:
            from ..symx import SUB

            xs, x0 = [SUB(xe, sp.Symbol("-1"))], [SUB(xe, sp.Symbol("0"))]
        else:
            xs, x0 = [], []

        def elems(node):
            v = node.value
            if isinstance(v, ast.Call) and v.args and isinstance(v.args[0], (ast.List, ast.Tuple)):
                return [nv.get(id(e)) for e in v.args[0].elts]
            return None

        xp, dfp = elems(asg["xp"]), elems(asg["dfp"])
        if span is None or xp is None or dfp is None or any(e is None for e in xp + dfp) or len(xs) != 1 or len(x0) != 1:
            chk.undecided("D4", key, c.where, "node expressions not extracted", algebraic=True)
            continue
        wh = "%s:%d" % (c.mod.rel, asg["xp"].lineno)
        ok_span = equal(span, xs[0] - x0[0], t)
        want_xp = [-span, 0] if sym else [-span / 2, 0, span / 2]
        want_df = [1, 0] if sym else [1, 0, 1]
        if len(xp) != len(want_xp) or len(dfp) != len(want_df):
            chk.violation("D4", key + " nodes", wh, "%d nodes / %d values, expected %d" % (len(xp), len(dfp), len(want_xp)), algebraic=True)
            continue
        r1 = [equal(a, sp.sympify(b), t) for a, b in zip(xp, want_xp)]
        r2 = [equal(a, sp.sympify(b), t) for a, b in zip(dfp, want_df)]
        if ok_span is True and all(x is True for x in r1 + r2):
            chk.ok("D4", key + " nodes", wh, "nodes %s values %s" % ([str(x) for x in xp], [str(x) for x in dfp]), algebraic=True)
        elif ok_span is False or any(x is False for x in r1 + r2):
            chk.violation("D4", key + " nodes", wh, "interpolation nodes %s with values %s (span = %s); documented: %s with %s, so that the chord scale is the taper ratio exactly at the tip" % ([str(x) for x in xp], [str(x) for x in dfp], span, [str(x) for x in want_xp], want_df), algebraic=True)
        else:
            chk.undecided("D4", key + " nodes", wh, "", algebraic=True)
        # weight = interp(x, xp, dfp) on the same reference-axis coordinate
        w = asg["weight"].value
        k5 = key + " interpolation"
        if isinstance(w, ast.Call) and ast.unparse(w.func).endswith("interp") and len(w.args) == 3:
            a0 = ast.unparse(w.args[0]).replace(".real", "")
            a1 = ast.unparse(w.args[1]).replace(".real", "")
            a2 = ast.unparse(w.args[2]).replace(".real", "")
            xname = ast.unparse(asg["x"].value) if ("x" in asg and isinstance(asg["x"].value, ast.Name)) else "x"
            if (a0, a1, a2) in (("x", "xp", "dfp"), (xname, "xp", "dfp")):
                chk.ok("D4", k5, "%s:%d" % (c.mod.rel, w.lineno), "weight = interp(x, xp, dfp)")
            else:
                chk.violation("D4", k5, "%s:%d" % (c.mod.rel, w.lineno), "weight = interp(%s, %s, %s); expected interp(x, xp, dfp)" % (a0, a1, a2))
        else:
            chk.undecided("D4", k5, c.where, "np.interp idiom not found")
        # taper = weight * ratio + (1 - weight)
        tp = nv.get(id(asg["taper"].value))
        ws = [s for n, s in t.syms.items() if n.startswith("opq:weight@")]
        ps = [p for p in _param_syms(t, "taper") if tp is not None and p in tp.free_symbols]
        k6 = key + " blend"
        if tp is None or len(ws) != 1 or len(ps) != 1:
            chk.undecided("D4", k6, c.where, "blend not extracted", algebraic=True)
        else:
            res = equal(tp, ws[0] * ps[0] + 1 - ws[0], t)
            if res is True:
                chk.ok("D4", k6, c.where, "scale = w taper + (1 - w)", algebraic=True)
            elif res is False:
                chk.violation("D4", k6, c.where, "chord scale is %s, expected weight*taper + (1 - weight)" % _short(tp), algebraic=True)
            else:
                chk.undecided("D4", k6, c.where, "", algebraic=True)


def _defaults_policy(atom):
    if " in surface" in atom:
        return " not in " in atom
    return None


def _present_policy(atom):
    if " in surface" in atom:
        return " not in " not in atom
    return None


def d2(chk, repo):
    chk.rule("D2", "GeometryMesh adds taper, scale_x, sweep, shear_x, stretch, shear_y, dihedral, shear_z, rotate once each in this order and connects <k>.mesh -> <k+1>.in_mesh along the chain, only the last mesh is promoted; with a key absent the transformation receives its identity value (1 / ones / 0 / zeros) and the default span is the reference-axis extent, doubled under symmetry exactly when Stretch halves it; with the key present the variable is promoted", min_decided=20)
    g = [c for c in repo.groups() if c.name == "GeometryMesh"]
    if not g:
        chk.undecided("D2", "GeometryMesh", "openaerostruct/geometry/geometry_mesh.py", "class not found")
        return
    g = g[0]
    # Stretch halves the span under symmetry?
    sc, sruns = _runs(repo, "Stretch")
    halves = {}
    for r in sruns:
        sym = _flag(r.sigma, "symmetry")
        h = any(e.kind in ("store", "assign") and e.d.get("op") == "/=" and (e.d.get("target") or e.d.get("name")) == "span" for e in r.events)
        halves[sym] = h
    for label, pol in (("defaults", _defaults_policy), ("all keys present", _present_policy)):
        try:
            runs = runs_with_policy(repo, g, pol)
        except Exception as ex:
            chk.undecided("D2", "GeometryMesh %s" % label, g.where, "setup not enumerated: %s" % ex)
            continue
        for gr in runs:
            sym = _flag(gr.sigma, "symmetry")
            tag = "%s, %s" % (label, "symmetry" if sym else "full span")
            subs = [s for s in gr.subsystems if s.owner == "self"]
            order = [(s.name, getattr(s.cls, "name", None)) for s in subs]
            key = "GeometryMesh chain order [%s]" % tag
            if order == CHAIN:
                chk.ok("D2", key, g.where, "9 transformations in the documented order")
            else:
                chk.violation("D2", key, g.where, "subsystems are %s; documented chain: %s" % ([n for n, _ in order], [n for n, _ in CHAIN]))
                continue
            con = {(a, b) for o, a, b, e in gr.connects if o == "self"}
            if any(a is None or b is None for a, b in con):
                chk.undecided("D2", "GeometryMesh connections [%s]" % tag, g.where, "connection names not resolved (unrecognised way of building the chain)")
                con = None
            want = {("%s.mesh" % CHAIN[i][0], "%s.in_mesh" % CHAIN[i + 1][0]) for i in range(len(CHAIN) - 1)}
            key = "GeometryMesh connections [%s]" % tag
            if con is None:
                pass
            elif con == want:
                chk.ok("D2", key, g.where, "8 chain connections")
            else:
                chk.violation("D2", key, g.where, "connections differ from the chain: missing %s, extra %s" % (sorted(want - con), sorted(con - want)))
            for s in subs:
                po = s.kwargs.get("promotes_outputs")
                outs = [x.tmpl for x in (po.items or [])] if po is not None and po.items is not None else []
                if (s.name == "rotate") != (outs == ["mesh"]):
                    chk.violation("D2", "GeometryMesh promoted mesh [%s] %s" % (tag, s.name), g.where, "%s promotes outputs %s; only the last transformation's mesh is the group's mesh" % (s.name, outs))
            # every transformation that has a reference-axis option receives the group's value
            ref_vals = {}
            for s in subs:
                has_opt = False
                try:
                    mm = component_model(repo, s.cls)
                    has_opt = any(e.kind == "optdecl" and e.d.get("name") == "ref_axis_pos" for rs in mm.runs.values() for r_ in rs for e in r_.events)
                except Exception:
                    pass
                if not has_opt:
                    continue
                rv = (s.ctor_kwargs or {}).get("ref_axis_pos")
                key = "GeometryMesh %s reference axis [%s]" % (s.name, tag)
                if rv is None:
                    chk.violation("D2", key, g.where, "%s has a ref_axis_pos option but GeometryMesh does not pass the surface's reference-axis position to it: it acts about its default axis (quarter chord) instead of the user's axis" % s.cls.name)
                else:
                    ref_vals[s.name] = (rv.cx, str(rv.sym))
                    chk.ok("D2", key, g.where, "ref_axis_pos passed (%s)" % (rv.cx or rv.sym))
            if len(set(ref_vals.values())) > 1:
                chk.violation("D2", "GeometryMesh reference axis consistent [%s]" % tag, g.where, "the transformations receive different reference-axis positions: %s" % ref_vals)
            for s in subs:
                cn = s.cls.name
                v = (s.ctor_kwargs or {}).get("val")
                pi = s.kwargs.get("promotes_inputs")
                pins = [x.tmpl for x in (pi.items or [])] if pi is not None and pi.items is not None else None
                key = "GeometryMesh %s default [%s]" % (s.name, tag)
                if cn == "Stretch":
                    if label == "defaults":
                        dbl = any(e.kind in ("assign", "store") and e.d.get("op") == "*=" and (e.d.get("name") or e.d.get("target")) == "span" for e in gr.run.events)
                        if halves.get(sym) is None:
                            chk.undecided("D2", key, g.where, "Stretch valuation not found")
                        elif dbl == halves.get(sym):
                            chk.ok("D2", key, g.where, "default span %s, Stretch %s" % ("doubled" if dbl else "as measured", "halves it" if halves.get(sym) else "uses it as is"))
                        else:
                            chk.violation("D2", key, g.where, "default span is %s by GeometryMesh but Stretch %s under %s: the default span does not reproduce the current mesh" % ("doubled" if dbl else "not doubled", "halves the input" if halves.get(sym) else "does not halve the input", "symmetry" if sym else "full span"))
                    continue
                var, ident, _ = IDENT[cn]
                if label == "defaults":
                    val = None
                    if v is not None and v.kind == "num" and v.sym is not None and v.sym.is_number:
                        val = sp.nsimplify(v.sym)
                    elif v is not None and v.kind == "arr" and isinstance(v.extra, tuple) and v.extra and v.extra[0] == "alloc":
                        val = {"ones": 1, "zeros": 0}.get(v.extra[1][0])
                    if val is None:
                        chk.undecided("D2", key, g.where, "default value not resolved")
                    elif val == ident:
                        chk.ok("D2", key, g.where, "default %s = %s (identity value)" % (var, ident))
                    else:
                        chk.violation("D2", key, g.where, "with no '%s' key the transformation receives %s, but its identity value is %s: the default geometry is not the input mesh" % (var, val, ident))
                    if pins:
                        chk.violation("D2", key + " promotion", g.where, "inputs %s promoted although the key is absent" % pins)
                else:
                    if pins is None:
                        chk.undecided("D2", key, g.where, "promotes not resolved")
                    elif pins == [var]:
                        chk.ok("D2", key, g.where, "'%s' promoted" % var)
                    else:
                        chk.violation("D2", key, g.where, "with the key present the promoted inputs are %s, expected ['%s']" % (pins, var))


def run(chk, repo, tier):
    from .c20 import l5

    d1(chk, repo)
    d2(chk, repo)
    d3(chk, repo)
    d4(chk, repo)
    l5(chk, repo, rule="D5", keys={"ref_axis_pos", "taper", "sweep", "dihedral", "span"})
    d6(chk, repo)


GEOM_KEYS = [("twist_cp", "twist"), ("chord_cp", "chord"), ("xshear_cp", "xshear"), ("yshear_cp", "yshear"), ("zshear_cp", "zshear"), ("sweep", "sweep"), ("span", "span"), ("dihedral", "dihedral"), ("taper", "taper")]


def d6(chk, repo):
    """The geometric variables reach the mesh chain whatever the *_dv flags say."""
    chk.rule("D6", "in the Geometry group, for every geometric key (twist_cp, chord_cp, xshear_cp, yshear_cp, zshear_cp, sweep, span, dihedral, taper) present in the surface dictionary the mesh subsystem promotes the corresponding input (twist, chord, ...) and, for control-point keys, a spline subsystem promotes the control points in and the distribution out under that name -- for both values of the <key>_dv flag, which only selects whether the user's value is installed as the input default.  An unpromoted mesh input is driven by its zero / unit default: the model runs, the spline output shows the user's distribution, and the mesh ignores it", min_decided=18)
    g = [c for c in repo.groups() if c.name == "Geometry"]
    if not g:
        chk.undecided("D6", "Geometry", "openaerostruct/geometry/geometry_group.py", "class not found")
        return
    g = g[0]
    for key_, var in GEOM_KEYS:
        unknown_atoms = set()

        def pol(atom, key_=key_, unknown_atoms=unknown_atoms):
            if "'%s' in surface" % key_ in atom:
                return " not in " not in atom
            if "'%s_dv'" % key_ in atom:
                return None
            if " in surface" in atom:
                return " not in " in atom
            if "_dv'" in atom:
                return True
            if "DVGeo" not in atom:
                unknown_atoms.add(atom)  # a test of a form this rule does not know: nothing is concluded from its runs
            return False

        try:
            runs = runs_with_policy(repo, g, pol)
        except Exception as ex:
            chk.undecided("D6", "Geometry %s" % key_, g.where, "setup not enumerated: %s" % ex)
            continue
        if not runs:
            chk.undecided("D6", "Geometry %s" % key_, g.where, "no valuation with the key present")
            continue
        for gr in runs:
            dv = _flag(gr.sigma, "%s_dv" % key_)
            k = "Geometry '%s' present, %s_dv=%s" % (key_, key_, dv)
            subs = {s.name: s for s in gr.subsystems if s.owner == "self"}
            mesh = subs.get("mesh")
            if mesh is None:
                chk.violation("D6", k, g.where, "no mesh subsystem")
                continue

            def plist(s_, kw):
                v = s_.kwargs.get(kw)
                return [x.tmpl for x in v.items] if v is not None and v.items is not None else None

            pins = plist(mesh, "promotes_inputs")
            if pins is None:
                chk.undecided("D6", k, g.where, "promotes_inputs of the mesh subsystem not resolved")
                continue
            if var not in pins and any(a_ in gr.sigma for a_ in unknown_atoms):
                chk.undecided("D6", k, g.where, "set-up tests %s, a form this rule does not interpret" % sorted(a_ for a_ in unknown_atoms if a_ in gr.sigma)[:2])
                continue
            if var not in pins:
                chk.violation("D6", k, g.where, "the surface has '%s' but the mesh subsystem does not promote its input '%s' (promotes_inputs = %s): the mesh chain is driven by the default value instead of the user's %s" % (key_, var, pins, key_))
                continue
            if key_.endswith("_cp"):
                b = subs.get("%s_bsp" % var)
                if b is None or var not in (plist(b, "promotes_outputs") or []) or key_ not in (plist(b, "promotes_inputs") or []):
                    chk.violation("D6", k, g.where, "no spline subsystem promotes '%s' in and '%s' out" % (key_, var))
                    continue
            chk.ok("D6", k, g.where, "'%s' promoted into the mesh chain" % var)
