"""C06 -- dynamic-pressure, scaling and translation laws.

  U0  declared units of one variable name agree (in dimension) across components
  U1  dimensional homogeneity of every compute(): + - compare only between equal
      dimensions, transcendental functions of dimensionless arguments, inferred
      dimension of every output == its declared unit, coefficients dimensionless
  U2  no dimensional constants other than the documented ones
  U3  lift / drag are the components of the summed panel forces normal to / along
      the free-stream direction that ConvertVelocity uses
  U4  moments and rotational velocities depend on positions only through
      differences (translation law)
  U5  coefficients: CL1 = L/(q S), CDi = D/(q S), area-weighted totals
  U6  panel force = rho x circulation x (velocity x bound vector): linear in rho
  U7  one cg / omega reaches every component that uses it (exposure through the groups)
"""
import re

import sympy as sp

from ..model import component_model
from ..symx import CROSS, SIG, SymX, equal, lin_expand
from ..unit import MIXED_ARRAYS, Dim, Unit, parse_units
from .c17 import Acc, _out, _short, check_identity, i1
from .common import NEVER_INSTANTIATED, POSTPROCESSING, norm_name, sig_txt

COEFFICIENTS = {"CL", "CD", "CM", "CL1", "CDi", "CDv", "CDw", "Cl", "failure", "L_equals_W", "fuel_vol_delta_norm"}

# dimensional constants that are documented / deliberate (U2): (class, literal text) -> reason
ALLOWED_CONSTANTS = {
    ("CreateRHS", "1e-06"): "documented regularisation: a tiny force keeps the rhs non-zero for the scaler (create_rhs.py comment)",
    ("ComputePointMassLoads", "1e-10"): "documented smoothing of the inverse-distance weights (compute_point_mass_loads.py comment)",
    ("ComputeThrustLoads", "1e-10"): "documented smoothing of the inverse-distance weights (compute_thrust_loads.py comment)",
}


def _base(n):
    n = norm_name(n)
    return n.split(">_")[-1] if ">_" in n else n


def u0(chk, repo):
    chk.rule("U0", "every variable name is declared with units of one dimension wherever a component declares it (unit systems may differ: OpenMDAO converts ft/m, deg/rad), and never with units in one component and without in another (no conversion would take place)", min_decided=60)
    tab = {}
    for c in repo.components():
        if c.name in POSTPROCESSING:
            continue
        m = component_model(repo, c)
        for sv in m.setup_views:
            for role, t in (("in", sv.inputs), ("out", sv.outputs)):
                for n, e in t.items():
                    if "units" in (e.kwargs or {}) and e.units is None:
                        continue  # not a literal: unknown
                    tab.setdefault(_base(n), {}).setdefault(e.units, []).append((c, e))
    for n, d in sorted(tab.items()):
        dims = {}
        for u, lst in d.items():
            dm = parse_units(u) if u is not None else None
            dims.setdefault("none" if u is None else (repr(dm) if dm is not None else "?" + u), []).extend(lst)
        key = "units of '%s'" % n
        c0, e0 = next(iter(d.values()))[0]
        if len(dims) == 1:
            chk.ok("U0", key, "%s:%d" % (c0.mod.rel, e0.lineno), "%d declaration(s), dimension %s" % (sum(len(x) for x in d.values()), next(iter(dims))))
            continue
        if any(k.startswith("?") for k in dims):
            chk.undecided("U0", key, c0.where, "unit string not understood: %s" % sorted(dims))
            continue
        # report at the minority declaration
        minority = min(dims.items(), key=lambda kv: len(kv[1]))
        c1, e1 = minority[1][0]
        chk.violation("U0", key, "%s:%d" % (c1.mod.rel, e1.lineno), "'%s' is declared with dimension %s in %s but %s" % (n, minority[0], c1.name, "; ".join("%s in %s" % (k, sorted({c.name for c, _ in v})[:4]) for k, v in dims.items() if k != minority[0])))


AERO_EXTRA = {"TotalLiftDrag", "SumAreas", "MomentCoefficient", "ReynoldsComp", "AtmosComp"}


def u1(chk, repo, only=None, rule="U1", rule2="U2", min_decided=60, dimconst=True):
    from ..groups import instantiated_classes

    scope = (instantiated_classes(repo, roots=["AeroPoint"]) | AERO_EXTRA) if only is None else set(only)
    U1, U2 = rule, rule2
    chk.rule(U1, "dimensional homogeneity (unit inference over every compute / apply_nonlinear, seeded by the declared units of the inputs): operands of + - and comparisons have one dimension, transcendental functions take dimensionless arguments, the dimension inferred for each output equals its declared unit, and outputs documented as coefficients are dimensionless. By the Pi theorem this is the rho-, v- and length-scaling law of the property, up to the dimensional constants listed by U2. Arrays that mix dimensions by design (%s) are not typed. Scope: the components reachable from AeroPoint and the aerodynamic functionals; structural components are analysed and listed as information" % ", ".join(sorted(MIXED_ARRAYS)), min_decided=min_decided)
    if dimconst:
        chk.rule(U2, "no literal or named constant is added to / compared with a dimensional quantity, except the documented ones (%s) and grav_constant" % ", ".join("%s %s" % k for k in sorted(ALLOWED_CONSTANTS)), min_decided=1)
    for c in repo.components():
        if c.name in POSTPROCESSING or c.name in NEVER_INSTANTIATED:
            continue
        try:
            m = component_model(repo, c, domains=(Unit,))
        except Exception as ex:
            chk.undecided(U1, c.name, c.where, "not analysed: %s" % ex)
            continue
        inscope = c.name in scope
        if only is not None and not inscope:
            continue

        def viol(rule_, key_, wh_, msg_, inscope=inscope):
            if inscope:
                chk.violation(rule_, key_, wh_, msg_)
            else:
                chk.info(rule_, key_, wh_, "(outside the aerodynamic scope of this property) " + msg_)

        def okk(rule_, key_, wh_, msg_, inscope=inscope):
            if inscope:
                chk.ok(rule_, key_, wh_, msg_)

        seen_c, seen_k = set(), set()
        for mn in ("compute", "apply_nonlinear"):
            for r in m.runs.get(mn, []):
                if r.final is None:
                    continue
                chk.analysed_method("%s.%s" % (c.name, mn))
                d = r.domains["UNIT"]
                dec = d._units or {}
                for rel, ln, qual, kind, msg in d.conflicts:
                    key = "%s: %s" % (qual, msg[:110])
                    if key in seen_c:
                        continue
                    seen_c.add(key)
                    viol(U1, key, "%s:%d" % (rel, ln), "%s (under %s)" % (msg, sig_txt(r.sigma)))
                for rel, ln, qual, lit, dim in (d.dimconst if dimconst else ()):
                    key = "%s: constant %s used as [%s]" % (qual, lit, dim)
                    if key in seen_k:
                        continue
                    seen_k.add(key)
                    cls = qual.split(".")[0]
                    own = c.name if (cls == c.name or "." not in qual) else cls
                    if (c.name, lit) in ALLOWED_CONSTANTS:
                        okk(U2, key, "%s:%d" % (rel, ln), "documented: " + ALLOWED_CONSTANTS[(c.name, lit)])
                    else:
                        viol(U2, key, "%s:%d" % (rel, ln), "the constant %s is added to / compared with a quantity of dimension [%s] in %s: the result depends on the unit / length scale of the model" % (lit, dim, qual))
                for oid, ob in r.final.heap.items():
                    if not (isinstance(oid, tuple) and oid[0] == "out"):
                        continue
                    o = oid[1]
                    nm = o.replace("[0]", "[i]")
                    if _base(o) in MIXED_ARRAYS:
                        continue
                    inf = ob.dom.get("UNIT")
                    de = dec.get(nm)
                    key = "%s.%s %s" % (c.name, norm_name(o), sig_txt(r.sigma))
                    if not isinstance(inf, Dim):
                        continue
                    if isinstance(de, Dim):
                        if inf == de:
                            okk(U1, key, c.where, "[%s]" % inf)
                        else:
                            viol(U1, key, c.where, "output '%s' is declared with dimension [%s] but the value computed has dimension [%s]" % (o, de, inf))
                    elif de is None and _base(o) in COEFFICIENTS:
                        if inf.dimensionless:
                            okk(U1, key, c.where, "dimensionless coefficient")
                        else:
                            viol(U1, key, c.where, "coefficient '%s' has dimension [%s]: it changes with the unit / scale of the model" % (o, inf))
                    elif de is None and not inf.dimensionless:
                        chk.info(U1, key, c.where, "declared without units, inferred [%s]" % inf)
    if dimconst and not any(i.rule == U2 for i in chk.instances):
        chk.undecided(U2, "no dimensional constant found", "openaerostruct", "")


def u3(chk, repo):
    chk.rule("U3", "LiftDrag: D = k sum(F . d) with d the unit free-stream direction used by ConvertVelocity (cos a cos b, -sin b, sin a cos b) and L = k sum(F . l) with l = (-sin a, 0, cos a), |l| = 1, l . d = 0 (k = 2 under symmetry)", min_decided=4)
    A = "openaerostruct/aerodynamics/"
    cv = repo.cls(A + "convert_velocity.py", "ConvertVelocity")
    mv = component_model(repo, cv, domains=(SymX,))
    dirs = []
    for r in mv.runs.get("compute", []):
        if r.final is None:
            continue
        t = r.domains["SYMX"].table
        v = t.syms.get("v")
        for e in r.events:
            if e.kind == "store" and e.d.get("cell") == ("out", "freestream_velocities") and e.d.get("op") == "=":
                val = e.d.get("val")
                d = val.dom.get("SYMX") if val is not None else None
                if isinstance(d, sp.MatrixBase) and d.shape == (3, 1) and v is not None:
                    dirs.append((d / v, t, r))
    if not dirs:
        chk.undecided("U3", "ConvertVelocity direction", cv.where, "free-stream vector not extracted")
        return
    d0, t0, _ = dirs[0]
    for d, t, r in dirs[1:]:
        if equal(d, d0, t) is not True:
            chk.undecided("U3", "ConvertVelocity direction", cv.where, "valuations disagree")
            return
    al = [s for n, s in t0.syms.items() if n == "alpha"]
    be = [s for n, s in t0.syms.items() if n == "beta"]
    n2 = sp.simplify(sum(x**2 for x in d0))
    if n2 == 1:
        chk.ok("U3", "ConvertVelocity direction is a unit vector", cv.where, str(list(d0)), algebraic=True)
    else:
        chk.violation("U3", "ConvertVelocity direction is a unit vector", cv.where, "|v_inf| / v = sqrt(%s)" % n2, algebraic=True)
    ld = repo.cls(A + "lift_drag.py", "LiftDrag")
    ml = component_model(repo, ld, domains=(SymX,))
    for r in ml.runs.get("compute", []):
        if r.final is None:
            continue
        t = r.domains["SYMX"].table
        tag = sig_txt(r.sigma)
        F = [t.syms.get("sec_forces[...,%d]" % i) for i in range(3)]
        a, b = t.syms.get("alpha"), t.syms.get("beta")
        if None in F or a is None or b is None or not al or not be:
            chk.undecided("U3", "LiftDrag %s" % tag, ld.where, "symbols not found", algebraic=True)
            continue
        dd = d0.subs({al[0]: a, be[0]: b})
        sym = [v for k, v in r.sigma.items() if "symmetry" in k]
        k = 2 if (sym and sym[0]) else 1
        wantD = k * SIG(sum(F[i] * dd[i] for i in range(3)))
        check_identity(chk, "U3", "LiftDrag.D %s" % tag, ld.where, _out(r, "D"), wantD, t, "D = k sum(F . free-stream direction of ConvertVelocity)")
        L = _out(r, "L")
        key = "LiftDrag.L %s" % tag
        if L is None:
            chk.undecided("U3", key, ld.where, "L not extracted", algebraic=True)
            continue
        # direction of L: coefficients of the force components
        z = sp.Dummy("z")
        inner = [x for x in L.atoms(sp.Function) if x.func == SIG]
        if len(inner) != 1:
            chk.undecided("U3", key, ld.where, "L is not a single sum: %s" % _short(L), algebraic=True)
            continue
        kk = sp.simplify(L / inner[0])
        e = sp.expand(inner[0].args[0])
        l = [sp.simplify(e.coeff(F[i])) for i in range(3)]
        rest = sp.simplify(e - sum(l[i] * F[i] for i in range(3)))
        norm2 = sp.simplify(sum(x**2 for x in l))
        dot = sp.simplify(sum(l[i] * dd[i] for i in range(3)))
        if rest != 0 or kk != k:
            chk.violation("U3", key, ld.where, "L = %s is not k sum(F . l) with k = %d" % (_short(L), k), algebraic=True)
        elif norm2 == 1 and dot == 0 and l[1] == 0:
            chk.ok("U3", key, ld.where, "lift direction %s: unit, normal to the free stream, in the x-z plane" % l, algebraic=True)
        else:
            chk.violation("U3", key, ld.where, "lift direction %s: |l|^2 = %s, l . d = %s, y component %s (expected 1, 0, 0)" % (l, norm2, dot, l[1]), algebraic=True)


POSITIONS = {
    "RotationalVelocity": ("openaerostruct/aerodynamics/rotational_velocity.py", ("cg", "coll_pts")),
    "MomentCoefficient": ("openaerostruct/functionals/moment_coefficient.py", ("cg", "_b_pts")),
}


def u4(chk, repo):
    chk.rule("U4", "translation law: the expressions of RotationalVelocity (omega x (r - cg)) and of the moment M = sum (r - cg) x F are unchanged when every position input (collocation / bound points and cg) is shifted by one common vector, using bilinearity and antisymmetry of the cross product", min_decided=1)
    for cname, (rel, pos) in POSITIONS.items():
        c = repo.cls(rel, cname)
        m = component_model(repo, c, domains=(SymX,))
        for r in m.runs.get("compute", []):
            if r.final is None:
                continue
            t = r.domains["SYMX"].table
            tag = sig_txt(r.sigma)
            exprs = []
            if cname == "RotationalVelocity":
                ob = r.final.heap.get(("out", "rotational_velocities"))
                if ob is not None:
                    if ob.dom.get("SYMX") is not None and not ob.dom.get("SYMX_idx"):
                        exprs.append(ob.dom.get("SYMX"))
                    exprs += [v for v in (ob.dom.get("SYMX_idx") or {}).values() if v is not None]
            else:
                e = _out(r, "M")
                if e is not None:
                    exprs.append(e)
            key = "%s %s" % (cname, tag)
            if not exprs:
                chk.undecided("U4", key, c.where, "expression not extracted", algebraic=True)
                continue
            d = sp.Symbol("shift", real=True)
            t.arrays.add(d)
            sub = {}
            for n, s in t.syms.items():
                b = re.sub(r"<[^>]*>", "", n).split("[")[0].split("@")[0]
                if any((b == p) if not p.startswith("_") else b.endswith(p) for p in pos):
                    sub[s] = s + d
            res = []
            for e in exprs:
                if any(s.name.startswith("opq:") for s in e.free_symbols) and not any(s in sub for s in e.free_symbols):
                    res.append(None)
                    continue
                diff = lin_expand(e.subs(sub, simultaneous=True) - e)
                if diff == 0:
                    res.append(True)
                elif any(s.name.startswith("opq:") for s in e.free_symbols):
                    res.append(None)
                else:
                    res.append((False, diff))
            bad = [x for x in res if isinstance(x, tuple)]
            if bad:
                chk.violation("U4", key, c.where, "shifting all positions and the reference point by a common vector changes the value by %s" % _short(bad[0][1]), algebraic=True)
            elif all(x is True for x in res):
                chk.ok("U4", key, c.where, "depends on positions only through differences (%d expression(s))" % len(res), algebraic=True)
            else:
                chk.undecided("U4", key, c.where, "opaque sub-expressions", algebraic=True)


def u6(chk, repo, rule="U6"):
    chk.rule(rule, "PanelForces: panel_forces = rho x horseshoe circulation x (velocity at the force point x bound vector), linear in rho and in the circulation", min_decided=1)
    c = repo.cls("openaerostruct/aerodynamics/panel_forces.py", "PanelForces")
    m = component_model(repo, c, domains=(SymX,))
    for r in m.runs.get("compute", []):
        if r.final is None:
            continue
        t = r.domains["SYMX"].table
        a = Acc(t)
        rho, g, v, l = a.s("rho"), a.s("horseshoe_circulations"), a.s("force_pts_velocities"), a.s("bound_vecs")
        if rho is None:
            rho = a.s("rho[0]")
        if rho is None:
            rho = t.get("rho", array=False)  # not read at all: the identity below then fails, as it must
        want = rho * g * CROSS(v, l) if None not in (rho, g, v, l) else None
        check_identity(chk, rule, "PanelForces.panel_forces", c.where, _out(r, "panel_forces"), want, t, "F = rho Gamma (v x l)")


def u8(chk, repo, rule="U8"):
    """A group that wires subsystem P to subsystem C by explicit connections wires every
    input of C for which P has an output of the same name."""
    from ..groups import group_model
    from ..wiring import _strip, first_comp, level_view

    chk.rule(rule, "explicit wiring is complete: when a group connects outputs of subsystem P to inputs of subsystem C, every remaining input of C that P produces under the same name is connected as well in every option valuation (otherwise the consumer silently works on its default value, e.g. unit panel lengths)", min_decided=8)
    seen = {}
    for g in repo.groups():
        gm = group_model(repo, g)
        for gr in gm.runs:
            for owner in gr.owners():
                lv = level_view(repo, gr, owner)
                pairs, tg = set(), set()
                for o, a, b, e in gr.connects:
                    if o != owner or not a or not b:
                        continue
                    a, b = a.replace("[0]", "[i]"), b.replace("[0]", "[i]")
                    tg.add(b)
                    if "." in _strip(a) and "." in _strip(b):
                        pairs.add((first_comp(a), first_comp(b)))
                for P, C in sorted(pairs):
                    if P not in lv.names or C not in lv.names or C in lv.unknown_subs or P in lv.unknown_subs:
                        continue
                    pouts = {n[len(P) + 1:] for n in lv.names[P][1] if n.startswith(P + ".")}
                    key = "%s/%s %s -> %s" % (g.name, owner, P, C)
                    miss = sorted(n[len(C) + 1:] for n in lv.names[C][0] if n.startswith(C + ".") and n not in tg and n[len(C) + 1:] in pouts)
                    st = seen.setdefault(key, {"bad": None, "n": 0, "where": g.where})
                    st["n"] += 1
                    if miss and st["bad"] is None:
                        st["bad"] = (miss, gr.sigma)
    for key, st in sorted(seen.items()):
        if st["bad"]:
            miss, sg = st["bad"]
            chk.violation(rule, key, st["where"], "under %s the inputs %s of the consumer exist and the producer has outputs of the same names, but they are not connected although other outputs of the same producer are" % (sig_txt(sg), miss))
        else:
            chk.ok(rule, key, st["where"], "all same-named pairs wired in %d valuation(s)" % st["n"])


def run(chk, repo, tier):
    u8(chk, repo)
    u0(chk, repo)
    u1(chk, repo)
    u3(chk, repo)
    u4(chk, repo)
    i1(chk, repo, only={"TotalLiftDrag", "SumAreas", "Coeffs", "TotalDrag"}, rule="U5", min_decided=6)
    u6(chk, repo)
    from .c16 import exposure

    u7_boundary = {
        ("CompressibleVLMStates", "self", "vortex_mesh", "alpha"): "VortexMesh has alpha only with ground effect; with the compressible solver that combination fails loudly at set-up (AeroPoint promotes height_agl, which CompressibleVLMStates does not expose), and in the Prandtl-Glauert frame alpha is 0, the default of this input",
    }
    exposure(chk, repo, "U7", {"cg": "reference point", "omega": "rotation rate", "alpha": "angle of attack", "beta": "sideslip angle", "v": "speed", "rho": "density", "Mach_number": "Mach number"}, boundary=u7_boundary, min_decided=4, text="translation law, wiring part: the reference point used by the rotational velocity is the model's cg and the rotation rate is settable: wherever a subsystem of a repository group has an input named cg, omega, alpha, beta, v, rho or Mach_number in some option valuation, the group promotes (or connects) it in that valuation, so that one cg value reaches both the moment and the rotational-velocity components")
