"""C10 -- beam equilibrium: symmetry, rigid-body null space and clamping
structure of the stiffness pipeline (K1 element tables, K2 congruences, K3
assembly and clamp)."""
import ast

import sympy as sp

from ..load import AnalysisError, const_fold, unparse
from ..model import component_model
from .common import sig_txt, where

LS = "openaerostruct/structures/local_stiff.py"
LSP = "openaerostruct/structures/local_stiff_permuted.py"
LST = "openaerostruct/structures/local_stiff_transformed.py"
FEMF = "openaerostruct/structures/fem.py"


def _table(mod, name):
    a = mod.global_assigns.get(name)
    if not a or len(a) != 1:
        raise AnalysisError("module-level table %s not found (or reassigned) in %s" % (name, mod.rel))
    try:
        v = const_fold(a[0].value)
    except ValueError as e:
        raise AnalysisError("table %s is not a literal: %s" % (name, e))
    return [[sp.nsimplify(x) for x in row] for row in v], a[0]


def _scaling_pattern(func):
    """Rows / columns of the 4x4 bending blocks multiplied by L, read from the
    loops  ``for i in <A>: for j in <B>: out[:, b+i, b+j] *= L``."""
    rows, cols = set(), set()
    found = 0
    for outer in ast.walk(func.node):
        if not isinstance(outer, ast.For):
            continue
        for inner in outer.body:
            if not isinstance(inner, ast.For):
                continue
            aug = [s for s in inner.body if isinstance(s, ast.AugAssign) and isinstance(s.op, ast.Mult)]
            if not aug:
                continue
            ia, ib = _iter_set(outer.iter), _iter_set(inner.iter)
            if ia is None or ib is None:
                return None
            vi, vj = unparse(outer.target), unparse(inner.target)
            for s in aug:
                t = s.target
                if not (isinstance(t, ast.Subscript) and isinstance(t.slice, ast.Tuple) and len(t.slice.elts) == 3):
                    return None
                r, c = unparse(t.slice.elts[1]), unparse(t.slice.elts[2])
                if vi in r and vj in c:
                    ri, cj = ia, ib
                elif vj in r and vi in c:
                    ri, cj = ib, ia
                else:
                    return None
                found += 1
                if len(ri) < 4:
                    rows |= ri
                if len(cj) < 4:
                    cols |= cj
    if not found:
        return None
    return rows, cols


def _iter_set(n):
    if isinstance(n, (ast.List, ast.Tuple)) and all(isinstance(e, ast.Constant) for e in n.elts):
        return {e.value for e in n.elts}
    if isinstance(n, ast.Call) and unparse(n.func) == "range" and len(n.args) == 1 and isinstance(n.args[0], ast.Constant):
        return set(range(n.args[0].value))
    return None


def k1(chk, repo):
    chk.rule("K1", "element stiffness tables: symmetric; with the L-scaling read from LocalStiff.compute each bending block annihilates rigid translation and rigid rotation, the axial/torsion block rigid translation; one-element cantilever tip flexibilities are L^3/3, L^2/2, L (per EI)", min_decided=9)
    mod = repo.module(LS)
    f = repo.method(LS, "LocalStiff", "compute")
    L = sp.Symbol("L", positive=True)
    pat = _scaling_pattern(f)
    for nm in ("coeffs_2", "coeffs_y", "coeffs_z"):
        T, node = _table(mod, nm)
        w = "%s:%d" % (mod.rel, node.lineno)
        M = sp.Matrix(T)
        if M.shape[0] != M.shape[1]:
            chk.violation("K1", "%s: square" % nm, w, "table is not square")
            continue
        if M == M.T:
            chk.ok("K1", "%s: symmetric" % nm, w, "table equals its transpose", algebraic=True)
        else:
            bad = [(i, j) for i in range(M.rows) for j in range(i) if M[i, j] != M[j, i]]
            chk.violation("K1", "%s: symmetric" % nm, w, "entries %s differ from their transposes: the element stiffness (and K) is not symmetric (Maxwell-Betti fails, FEM.solve_linear rev mode wrong)" % bad, algebraic=True)
        if M.rows == 2:
            v = sp.Matrix([1, 1])
            if (M * v).is_zero_matrix:
                chk.ok("K1", "%s: rigid translation" % nm, w, "K.(1,1) = 0", algebraic=True)
            else:
                chk.violation("K1", "%s: rigid translation" % nm, w, "the 2x2 block does not annihilate a rigid translation (1,1): %s" % list(M * v), algebraic=True)
            continue
        if pat is None:
            chk.undecided("K1", "%s: scaling pattern" % nm, f.where, "L-scaling loops of LocalStiff.compute not recognised")
            continue
        rows, cols = pat
        K = sp.Matrix(4, 4, lambda i, j: M[i, j] * L ** ((1 if i in rows else 0) + (1 if j in cols else 0)))
        vt = sp.Matrix([1, 0, 1, 0])
        if sp.simplify(K * vt).is_zero_matrix:
            chk.ok("K1", "%s: rigid translation" % nm, w, "K.(1,0,1,0) = 0", algebraic=True)
        else:
            chk.violation("K1", "%s: rigid translation" % nm, w, "bending block does not annihilate a rigid translation: K.(1,0,1,0) = %s" % list(sp.simplify(K * vt)), algebraic=True)
        okrot = None
        for s in (1, -1):
            vr = sp.Matrix([0, 1, s * L, 1])
            if sp.simplify(K * vr).is_zero_matrix:
                okrot = s
        if okrot is not None:
            chk.ok("K1", "%s: rigid rotation" % nm, w, "K.(0,1,%sL,1) = 0" % ("+" if okrot > 0 else "-"), algebraic=True)
        else:
            chk.violation("K1", "%s: rigid rotation" % nm, w, "bending block does not annihilate a rigid rotation (0,1,+-L,1): a rigid motion of the element produces nodal forces", algebraic=True)
        K22 = K[2:, 2:]
        try:
            F = sp.simplify(K22.inv() * L**3)  # flexibility * EI  (K = EI/L^3 * K)
            want_d = (L**3 / 3, L)
            if sp.simplify(F[0, 0] - want_d[0]) == 0 and sp.simplify(F[1, 1] - want_d[1]) == 0 and sp.simplify(F[0, 1] ** 2 - (L**2 / 2) ** 2) == 0 and sp.simplify(F[0, 1] - F[1, 0]) == 0:
                chk.ok("K1", "%s: cantilever flexibility" % nm, w, "tip flexibility = [[L^3/3, +-L^2/2],[+-L^2/2, L]]/EI", algebraic=True)
            else:
                chk.violation("K1", "%s: cantilever flexibility" % nm, w, "one-element cantilever tip flexibility*EI is %s, not [[L^3/3, +-L^2/2],[+-L^2/2, L]]" % F.tolist(), algebraic=True)
        except Exception as e:
            chk.violation("K1", "%s: cantilever flexibility" % nm, w, "clamped element block is singular (%s)" % e, algebraic=True)


def _einsum_calls(func):
    out = []
    for n in ast.walk(func.node):
        if isinstance(n, ast.Call) and unparse(n.func).endswith("einsum") and n.args and isinstance(n.args[0], ast.Constant):
            out.append(n)
    return out


def _is_congruence(call):
    spec = call.args[0].value.replace(" ", "")
    ops = call.args[1:]
    if "->" not in spec or len(ops) != 3:
        return None
    lhs, rhs = spec.split("->")
    t = lhs.split(",")
    if len(t) != 3:
        return None
    a, k, b = t
    ea, eb = unparse(ops[0]), unparse(ops[2])
    # strip a common batch index (present in all terms and the output)
    batch = [ch for ch in rhs if ch in k and ((ch in a and ch in b) or (ch not in a and ch not in b))]
    for ch in batch:
        a, k, b, rhs = a.replace(ch, ""), k.replace(ch, ""), b.replace(ch, ""), rhs.replace(ch, "")
    if len(a) != 2 or len(b) != 2 or len(k) != 2 or len(rhs) != 2:
        return None
    f1, f2 = rhs
    c1, c2 = k
    # form X^T K X with the same operand X = ops[0] = ops[2]:  a = (c1,f1), b = (c2,f2)
    if ea == eb and a == c1 + f1 and b == c2 + f2:
        return "same operand %s on both sides: out = X^T K X" % ea
    # form A K B with A = B.T written explicitly
    if (ea == eb + ".T" or ea == "np.transpose(%s)" % eb or ea == eb + ".transpose()") and a == f1 + c1 and b == c2 + f2:
        return "%s K %s: out = X^T K X" % (ea, eb)
    if (eb == ea + ".T") and a == c1 + f1 and b == f2 + c2:
        return "out = X^T K X (transposed right operand)"
    return False


def k2(chk, repo):
    chk.rule("K2", "DOF permutation is a permutation of 0..11 and both stiffness transformations are congruences X^T K X (they preserve symmetry and definiteness)", min_decided=3)
    mod = repo.module(LSP)
    a = mod.global_assigns.get("col_indices")
    if not a:
        raise AnalysisError("col_indices not found in %s" % LSP)
    try:
        ci = const_fold(a[0].value)
    except ValueError as e:
        raise AnalysisError("col_indices not literal: %s" % e)
    w = "%s:%d" % (mod.rel, a[0].lineno)
    if sorted(ci) == list(range(12)):
        chk.ok("K2", "col_indices: permutation", w, "permutation of 0..11")
    else:
        chk.violation("K2", "col_indices: permutation", w, "col_indices %s is not a permutation of 0..11: the permuted stiffness loses / duplicates degrees of freedom" % ci)
    # mtx[row_indices, col_indices] = 1.0 with row_indices = arange(12)
    ri = mod.global_assigns.get("row_indices")
    okp = False
    for st in mod.global_assigns.get("mtx", []):
        if isinstance(st, ast.Assign) and isinstance(st.targets[0], ast.Subscript):
            s = unparse(st.targets[0])
            if "row_indices" in s and "col_indices" in s and isinstance(st.value, ast.Constant) and st.value.value == 1.0:
                okp = True
    if okp and ri and unparse(ri[0].value).replace(" ", "") in ("np.arange(12)", "numpy.arange(12)"):
        chk.ok("K2", "mtx: permutation matrix", w, "mtx[arange(12), col_indices] = 1 on zeros((12,12))")
    else:
        chk.undecided("K2", "mtx: permutation matrix", w, "construction of mtx not recognised")
    for rel, cname in ((LSP, "LocalStiffPermuted"), (LST, "LocalStiffTransformed")):
        f = repo.method(rel, cname, "compute")
        calls = _einsum_calls(f)
        if not calls:
            chk.undecided("K2", "%s.compute: congruence" % cname, f.where, "no einsum found")
            continue
        for call in calls:
            r = _is_congruence(call)
            key = "%s.compute: congruence" % cname
            ww = "%s:%d" % (f.mod.rel, call.lineno)
            if r:
                chk.ok("K2", key, ww, r)
            elif r is False:
                chk.violation("K2", key, ww, "einsum '%s' with operands %s is not a congruence X^T K X: the transformed element matrix is not symmetric" % (call.args[0].value, [unparse(x) for x in call.args[1:]]))
            else:
                chk.undecided("K2", key, ww, "einsum form not recognised")


def _concat_elems(node):
    if isinstance(node, ast.Call) and unparse(node.func).endswith("concatenate") and node.args and isinstance(node.args[0], (ast.List, ast.Tuple)):
        return [unparse(e) for e in node.args[0].elts]
    return None


def fem_symmetry_evidence(repo, chk=None):
    """Structural evidence that the assembled FEM matrix is symmetric.
    Returns {"FEM": text} when established, {} otherwise (and reports K3)."""
    res = {}
    try:
        setup = repo.method(FEMF, "FEM", "setup")
        cls = repo.cls(FEMF, "FEM")
    except AnalysisError:
        return res
    asm = None
    for mname, f in cls.methods.items():
        for n in ast.walk(f.node):
            if isinstance(n, ast.Attribute) and n.attr == "k_data" and isinstance(n.ctx, ast.Store):
                asm = f
    rows = cols = data = None
    for n in ast.walk(setup.node):
        if isinstance(n, ast.Assign):
            tg = [unparse(t) for t in n.targets]
            if "self.k_rows" in tg:
                rows = _concat_elems(n.value)
            if "self.k_cols" in tg:
                cols = _concat_elems(n.value)
    slices = {}
    if asm is not None:
        for n in ast.walk(asm.node):
            if isinstance(n, ast.Assign):
                tg = [unparse(t) for t in n.targets]
                if "self.k_data" in tg:
                    data = _concat_elems(n.value)
                if isinstance(n.targets[0], ast.Name):
                    slices[n.targets[0].id] = unparse(n.value).replace(" ", "")
    problems = []
    unknown = []
    if rows is None or cols is None or data is None:
        unknown.append("k_rows / k_cols / k_data concatenations not recognised")
    else:
        if not (len(rows) == len(cols) == len(data)):
            problems.append("k_rows, k_cols and k_data concatenate %d, %d and %d blocks" % (len(rows), len(cols), len(data)))
        else:
            # constraint triplets: last two blocks swapped between rows and cols, same data twice
            if len(rows) >= 2 and rows[-2:] == list(reversed(cols[-2:])) and rows[-2] != rows[-1]:
                if data[-1] != data[-2]:
                    problems.append("constraint blocks use different data (%s, %s)" % (data[-2], data[-1]))
            else:
                problems.append("the constraint triplets are not appended in both orders: k_rows ends with %s, k_cols with %s" % (rows[-2:], cols[-2:]))
            # off-diagonal blocks: data1/data2 mirror slices
            d1, d2 = slices.get(data[0], ""), slices.get(data[1], "")
            if "[:,:6,6:]" in d1 and "[:,6:,:6]" in d2 or "[:,6:,:6]" in d1 and "[:,:6,6:]" in d2:
                pass
            else:
                unknown.append("off-diagonal data blocks %s / %s not recognised as the [:, :6, 6:] / [:, 6:, :6] pair" % (d1[:40], d2[:40]))
    if chk is not None:
        chk.rule("K3", "assembly keeps symmetry (mirror off-diagonal blocks, constraint triplets in both orders with the same data) and clamps exactly six DOFs of the root node: index ny-1 under symmetry, (ny-1)//2 otherwise", min_decided=2)
        key = "FEM: symmetric assembly"
        if problems:
            chk.violation("K3", key, setup.where, "; ".join(problems) + ": the assembled matrix is not symmetric, so FEM.solve_linear (same factor in both modes) gives wrong reverse-mode derivatives")
        elif unknown:
            chk.undecided("K3", key, setup.where, "; ".join(unknown))
        else:
            chk.ok("K3", key, setup.where, "constraint triplets appended in both orders with identical data; off-diagonal blocks are the mirrored pair")
    if not problems and not unknown:
        # element matrices symmetric: tables (K1) + congruences (K2) re-checked here
        try:
            mod = repo.module(LS)
            sym = all(sp.Matrix(_table(mod, nm)[0]) == sp.Matrix(_table(mod, nm)[0]).T for nm in ("coeffs_2", "coeffs_y", "coeffs_z"))
            cong = all(any(_is_congruence(c) for c in _einsum_calls(repo.method(rel, cn, "compute"))) for rel, cn in ((LSP, "LocalStiffPermuted"), (LST, "LocalStiffTransformed")))
            pat = _scaling_pattern(repo.method(LS, "LocalStiff", "compute"))
            scale_sym = pat is not None and pat[0] == pat[1]
        except AnalysisError:
            sym = cong = scale_sym = False
        if sym and cong and scale_sym:
            res["FEM"] = "symmetric element tables with symmetric L-scaling, congruence transformations, mirrored assembly"
    return res


def k3(chk, repo):
    ev = fem_symmetry_evidence(repo, chk)
    cls = repo.cls(FEMF, "FEM")
    m = component_model(repo, cls)
    for run in m.runs.get("setup", []):
        if run.final is None:
            continue
        sym = run.sigma.get("options['surface']['symmetry']")
        if sym is None:
            for k, v in run.sigma.items():
                if "symmetry" in k:
                    sym = v
        idx = None
        rows6 = None
        for e in run.events:
            if e.kind == "assign" and e.name == "idx":
                idx = e.val
            if e.kind == "assign" and e.name == "rows6":
                rows6 = e.val
        key = "FEM.setup: clamped node [%s]" % ("symmetry" if sym else "full span")
        ny = sp.Symbol("ny", integer=True, positive=True)
        if idx is not None and idx.sym is None and sym is not None and idx.cfg:
            chk.violation("K3", key, m.cls.where, "the clamped node index is not a function of the node count alone (it is computed as '%s' under %s); the property clamps node %s" % (idx.cx or "a value derived from mesh coordinates / rounding", sig_txt(run.sigma), "ny-1" if sym else "(ny-1)//2"))
            continue
        if idx is None or idx.sym is None or sym is None:
            chk.undecided("K3", key, m.cls.where, "clamped node index not resolved")
            continue
        want = ny - 1 if sym else sp.floor((ny - 1) / 2)
        got = idx.sym
        if sp.simplify(got - want) == 0 or sp.simplify(got.subs(ny, 2 * sp.Symbol("k", integer=True, positive=True) + 1) - want.subs(ny, 2 * sp.Symbol("k", integer=True, positive=True) + 1)) == 0:
            n6 = rows6.shape[0] if (rows6 is not None and rows6.shape) else None
            if n6 is not None and n6 == 6:
                chk.ok("K3", key, m.cls.where, "idx = %s, six constraint rows" % got)
            elif n6 is None:
                chk.undecided("K3", key, m.cls.where, "number of constraint rows not resolved")
            else:
                chk.violation("K3", key, m.cls.where, "%s constraint rows instead of 6: the root node is not fully clamped" % n6)
        else:
            chk.violation("K3", key, m.cls.where, "clamped node index is %s under %s; the root node is %s" % (got, sig_txt(run.sigma), want))


def k4(chk, repo):
    """The documented tiny-load threshold of CreateRHS is an absolute constant."""
    chk.rule("K4", "the only non-linearity of the load path (CreateRHS zeroing of tiny loads) compares |force| with an input-independent constant, so loads well above it pass through linearly", min_decided=1)
    c = repo.cls("openaerostruct/structures/create_rhs.py", "CreateRHS")
    m = component_model(repo, c)
    found = False
    for r in m.runs.get("compute", []):
        for e in r.events:
            if e.kind == "store" and e.cell and e.cell[0] == "out" and e.sub_vals:
                for sv, txt in zip(e.sub_vals, e.subs):
                    if sv.kind in ("bool", "arr") and "<" in txt or ">" in txt:
                        found = True
                        node = e.node.targets[0].slice if hasattr(e.node, "targets") else None
                        thr_dep = set()
                        thr_txt = None
                        if isinstance(node, ast.Compare):
                            # which side is the threshold: the one without abs()
                            sides = [node.left] + list(node.comparators)
                            # the tested quantity is the bare |array| side; the other side is the threshold
                            tested = [sd for sd in sides if isinstance(sd, ast.Call) and unparse(sd.func) in ("np.abs", "abs", "numpy.abs", "np.absolute") and len(sd.args) == 1 and isinstance(sd.args[0], ast.Subscript)]
                            for side in sides:
                                if side not in tested[:1] and (tested or "abs" not in unparse(side)):
                                    thr_txt = unparse(side)
                                    # dependence of the threshold expression on inputs / outputs
                                    names = {n.id for n in ast.walk(side) if isinstance(n, ast.Name)}
                                    for ev2 in r.events:
                                        if ev2.kind == "assign" and ev2.name in names and ev2.val is not None:
                                            thr_dep |= {d for d in ev2.val.dep if d.startswith(("in:", "out:"))}
                                    if any(isinstance(n, ast.Subscript) and unparse(n.value) in ("inputs", "outputs") for n in ast.walk(side)):
                                        thr_dep.add("direct")
                        key = "CreateRHS.compute: zeroing threshold"
                        if thr_txt is None:
                            chk.undecided("K4", key, where(c, e.lineno), "threshold not isolated")
                        elif thr_dep:
                            chk.violation("K4", key, where(c, e.lineno), "the zeroing threshold '%s' depends on the loads themselves (%s): components much smaller than the largest load are dropped, the response is no longer linear in the loads" % (thr_txt, sorted(thr_dep)))
                        else:
                            chk.ok("K4", key, where(c, e.lineno), "absolute threshold %s" % thr_txt)
    if not found:
        chk.info("K4", "CreateRHS.compute: zeroing threshold", c.where, "no masked store found (no non-linearity)")
        chk.ok("K4", "CreateRHS.compute: no masked store", c.where, "load path fully linear")


def k5(chk, repo):
    """the displacements reported are the FEM solution, unmodified"""
    from ..model import component_model
    from ..symx import SymX

    chk.rule("K5", "Disp reports the solution of the beam system itself: disp is disp_aug without the six Lagrange multipliers, reshaped, with no element overwritten or rescaled afterwards (so the reported displacements satisfy the equilibrium that FEM solved, for every mesh size and symmetry option)", min_decided=1)
    c = repo.cls("openaerostruct/structures/disp.py", "Disp")
    m = component_model(repo, c, domains=(SymX,))
    for r in m.runs.get("compute", []):
        if r.final is None:
            continue
        from .common import sig_txt

        key = "Disp.compute %s" % sig_txt(r.sigma)
        ob = r.final.heap.get(("out", "disp"))
        d = ob.dom.get("SYMX") if ob is not None else None
        allst = [e for e in r.events if e.kind == "store" and e.d.get("cell") == ("out", "disp")]
        # the defining store: the first plain store of the whole array (outputs[k] = v, outputs[k][:] = v, [...] = v)
        whole_ = lambda e_: e_.d.get("op") == "=" and all(x_.replace(" ", "") in ("", ":", "...") for x_ in (e_.d.get("csubs") or ("",)))
        first_def = next((e_ for e_ in allst if whole_(e_)), None)
        extra = [e for e in allst if e is not first_def]
        if first_def is not None and d is None:
            v_ = first_def.d.get("val")
            d = v_.dom.get("SYMX") if v_ is not None else None
        if extra:
            e = extra[0]
            chk.violation("K5", key, "%s:%d" % (c.mod.rel, e.lineno), "after copying the solution, Disp modifies it (%s %s ...): the reported displacements are no longer the solution of K u = f" % (e.d.get("target"), e.d.get("op")))
        elif d is not None and str(d) == "disp_aug[:-6]":
            chk.ok("K5", key, c.where, "disp = disp_aug[:-6] reshaped")
        elif d is None:
            chk.undecided("K5", key, c.where, "expression not extracted")
        else:
            chk.violation("K5", key, c.where, "disp = %s, expected disp_aug[:-6] (the solution without the Lagrange multipliers)" % d)


def k6(chk, repo):
    """the element frames are one smooth function of the nodes"""
    from ..model import component_model
    from .common import sig_txt

    chk.rule("K6", "Transform builds the local element axes from the element direction and one fixed global reference axis: neither compute nor compute_partials selects between alternatives depending on the node positions (an if or np.where on input values would swap the roles of Iy and Iz for some elements and make the response discontinuous in the geometry)", min_decided=2)
    c = repo.cls("openaerostruct/structures/transform.py", "Transform")
    m = component_model(repo, c)
    for mn in ("compute", "compute_partials"):
        for r in m.runs.get(mn, []):
            if r.final is None:
                continue
            key = "Transform.%s %s" % (mn, sig_txt(r.sigma))
            sel = [e for e in r.events if e.kind in ("test", "select") and any(str(d_).startswith("in:") for d_ in (e.d.get("dep") or ()))]
            # a store through an input-valued index / boolean mask (ref_axis[aligned, :] = other axis) is the same selection
            msk = [e for e in r.events if e.kind == "store" and any(str(d_).startswith("in:") for sv in (e.d.get("sub_vals") or ()) for d_ in (getattr(sv, "dep", None) or ()))]
            if msk and not sel:
                e = msk[0]
                chk.violation("K6", key, "%s:%d" % (e.func.mod.rel, e.lineno), "part of the reference axis / frame is overwritten through an index or mask computed from the inputs (%s in %s)" % (" ".join((e.d.get("target") or "").split())[:80], e.func.qual))
                continue
            if sel:
                e = sel[0]
                chk.violation("K6", key, "%s:%d" % (e.func.mod.rel, e.lineno), "the reference axis / frame is selected by a condition on the inputs (%s in %s)" % (" ".join((e.d.get("pred") or "").split())[:80], e.func.qual))
            else:
                chk.ok("K6", key, c.where, "no input-valued selection")


def k7(chk, repo):
    """The right-hand side and the reported displacements are rebuilt from scratch on every
    evaluation (shared with C03-R7): a load left over from a previous load case breaks
    linearity and reciprocity of the response."""
    from .c03 import r7
    from .common import all_models

    r7(chk, repo, all_models(repo, chk), rule="K7", only=("CreateRHS", "Disp"), min_decided=2)


def run(chk, repo, tier):
    k6(chk, repo)
    k7(chk, repo)
    k1(chk, repo)
    k2(chk, repo)
    k3(chk, repo)
    k4(chk, repo)
    k5(chk, repo)
