"""C07 -- mirror-image configurations: the decidable, structural part.

  M1  orientation predicates agree: VortexMesh.left_wing and EvalVelMtx.right_wing
      (setup, compute, compute_partials) are the two strict comparisons of |y| at the
      first and the last spanwise node of the same mesh entry
  M2  half models of either hand: the sweep / dihedral displacement of a symmetric
      half is mirror-equivariant (decided on the extracted expression); taper and
      twist do not hard-wire the last spanwise node as the root while the code base
      (M1) accepts right-hand halves
Not decided: equivariance of forces, displacements and stresses under reflection
(array-valued functions of the whole configuration).
"""
import ast

import sympy as sp

from ..model import component_model
from ..symx import SymX, equal
from .c17 import _short
from .common import sig_txt

A = "openaerostruct/aerodynamics/"
G = "openaerostruct/geometry/geometry_mesh_transformations.py"


def _orientation_pred(n):
    """(first_idx, op, last_idx) for abs(M[0, a, 1]) <op> abs(M[0, b, 1]); else None"""
    if not (isinstance(n, ast.Compare) and len(n.ops) == 1 and len(n.comparators) == 1):
        return None

    def side(x):
        if isinstance(x, ast.Call) and ast.unparse(x.func) in ("abs", "np.abs", "numpy.abs") and len(x.args) == 1:
            s = x.args[0]
            if isinstance(s, ast.Subscript) and isinstance(s.slice, ast.Tuple) and len(s.slice.elts) == 3:
                try:
                    idx = tuple(ast.literal_eval(e) for e in s.slice.elts)
                except Exception:
                    return None
                return ast.unparse(s.value), idx
        return None

    a, b = side(n.left), side(n.comparators[0])
    if a is None or b is None or a[0] != b[0]:
        return None
    return a[0], a[1], type(n.ops[0]).__name__, b[1]


def m1(chk, repo):
    chk.rule("M1", "every definition of left_wing (VortexMesh) is abs(mesh[0,0,1]) > abs(mesh[0,-1,1]) and every definition of right_wing (EvalVelMtx) is abs(mesh[0,0,1]) < abs(mesh[0,-1,1]) on the surface's own mesh entry: the two components agree on the hand of a symmetric half in set-up, evaluation and linearisation", min_decided=2)
    found = {"left_wing": [], "right_wing": []}
    for rel, cn in ((A + "vortex_mesh.py", "VortexMesh"), (A + "eval_mtx.py", "EvalVelMtx")):
        c = repo.cls(rel, cn)
        for mn, f in c.methods.items():
            for n in ast.walk(f.node):
                if isinstance(n, ast.Assign):
                    for tg in n.targets:
                        names = [x.id for x in ast.walk(tg) if isinstance(x, ast.Name)] + [x.attr for x in ast.walk(tg) if isinstance(x, ast.Attribute)]
                        for nm in names:
                            if nm in found:
                                found[nm].append((c, mn, n))
    for nm, want_op in (("left_wing", "Gt"), ("right_wing", "Lt")):
        if not found[nm]:
            chk.undecided("M1", nm, A, "no definition found")
        for c, mn, n in found[nm]:
            key = "%s.%s: %s (line text: %s)" % (c.name, mn, nm, " ".join(ast.unparse(n.value).split())[:80])
            wh = "%s:%d" % (c.mod.rel, n.lineno)
            p = _orientation_pred(n.value)
            if p is None:
                # a copy of a value computed elsewhere (e.g. cached attribute): not a definition
                if isinstance(n.value, (ast.Name, ast.Attribute)):
                    chk.info("M1", key, wh, "copy of %s" % ast.unparse(n.value))
                else:
                    chk.violation("M1", key, wh, "%s is not a comparison of |y| at the first and last spanwise node: %s" % (nm, ast.unparse(n.value)[:80]))
                continue
            base, ia, op, ib = p
            if ia == (0, 0, 1) and ib == (0, -1, 1) and op == want_op and base.endswith("['mesh']"):
                chk.ok("M1", key, wh, "abs(y_first) %s abs(y_last)" % (">" if op == "Gt" else "<"))
            elif ia == (0, -1, 1) and ib == (0, 0, 1) and op == {"Gt": "Lt", "Lt": "Gt"}[want_op] and base.endswith("['mesh']"):
                chk.ok("M1", key, wh, "same predicate, operands swapped")
            else:
                chk.violation("M1", key, wh, "%s = %s: expected abs(mesh[0,0,1]) %s abs(mesh[0,-1,1]) (the other component uses the complementary comparison, so the two would disagree on the hand of the half)" % (nm, ast.unparse(n.value)[:90], ">" if want_op == "Gt" else "<"))


def m2(chk, repo):
    chk.rule("M2", "a symmetric half may be of either hand (M1): under symmetry the x / z displacement of Sweep / Dihedral, written in the first / last / generic spanwise y coordinates, is unchanged by the mirror map (y -> -y, first <-> last node), or the class branches on the orientation; Taper and Rotate do not take the last spanwise node as the root unconditionally", min_decided=4)
    for cname, col in (("Sweep", 0), ("Dihedral", 2)):
        c = repo.cls(G, cname)
        m = component_model(repo, c, domains=(SymX,))
        for r in m.runs.get("compute", []):
            if r.final is None:
                continue
            sym = [v for k, v in r.sigma.items() if "symmetry" in k]
            if not sym or not sym[0]:
                continue
            t = r.domains["SYMX"].table
            ob = r.final.heap.get(("out", "mesh"))
            per = (ob.dom.get("SYMX_idx") or {}) if ob is not None else {}
            e = per.get(":,:,%d" % col)
            mesh = t.syms.get("in_mesh")
            key = "%s.compute %s" % (cname, sig_txt(r.sigma))
            if e is None or mesh is None:
                chk.undecided("M2", key, c.where, "displacement not extracted", algebraic=True)
                continue
            d = sp.expand(e - mesh)
            oriented = any("abs(" in k and "mesh" in k for k in r.sigma)
            ys = {n: s for n, s in t.syms.items() if n.startswith("in_mesh[0][") and n.endswith(",1]")}
            y = ys.get("in_mesh[0][...,1]")
            yl = ys.get("in_mesh[0][-1,1]")
            yf = ys.get("in_mesh[0][0,1]")
            if yf is None:
                yf = t.get("in_mesh[0][0,1]", array=False, positive=False)
            if yl is None:
                yl = t.get("in_mesh[0][-1,1]", array=False, positive=False)
            extra = {s for s in d.free_symbols if s.name.startswith("in_mesh")} - {x for x in (y, yl, yf) if x is not None}
            if extra or y is None:
                chk.undecided("M2", key, c.where, "displacement uses other mesh entries: %s" % sorted(str(s) for s in extra), algebraic=True)
                continue
            a, b, g = sp.Dummy("a"), sp.Dummy("b"), sp.Dummy("g")
            mir = d.subs({y: g, yl: a, yf: b}, simultaneous=True).subs({g: -y, a: -yf, b: -yl}, simultaneous=True)
            if oriented:
                chk.info("M2", key, c.where, "branches on the orientation of the half")
                continue
            res = equal(mir, d, t)
            if res is True:
                chk.ok("M2", key, c.where, "displacement %s is mirror-invariant" % _short(d), algebraic=True)
            elif res is False:
                chk.violation("M2", key, c.where, "under symmetry the displacement of coordinate %d is %s; on the mirror-image (right-hand) half it becomes %s: the last spanwise node is taken as the root whatever the hand of the half, so sweep / dihedral act with the wrong sense on right-hand halves" % (col, _short(d), _short(mir)), algebraic=True)
            else:
                chk.undecided("M2", key, c.where, "%s vs %s" % (_short(d), _short(mir)), algebraic=True)
    # Stretch: the new y coordinate is odd under the mirror map (y -> -y, first <-> last)
    from ..symx import SUB

    c = repo.cls(G, "Stretch")
    m = component_model(repo, c, domains=(SymX,))
    for r in m.runs.get("compute", []):
        if r.final is None:
            continue
        sym = [v for k, v in r.sigma.items() if "symmetry" in k]
        if not sym or not sym[0]:
            continue
        t = r.domains["SYMX"].table
        ob = r.final.heap.get(("out", "mesh"))
        per = (ob.dom.get("SYMX_idx") or {}) if ob is not None else {}
        e = per.get(":,:,1")
        key = "Stretch.compute %s" % sig_txt(r.sigma)
        if e is None:
            chk.undecided("M2", key, c.where, "new spanwise coordinate not extracted", algebraic=True)
            continue
        subs_atoms = [a for a in e.atoms(sp.Function) if a.func == SUB]
        ok_forms = all(str(a.args[1]) in (":,1", "-1,1", "0,1") for a in subs_atoms)
        if not ok_forms or any(s_.name.startswith("in_mesh") and ",1]" in s_.name for s_ in e.free_symbols):
            chk.undecided("M2", key, c.where, "spanwise coordinates enter in an unrecognised form: %s" % _short(e), algebraic=True)
            continue
        rep = {}
        for a in subs_atoms:
            E, sl = a.args[0], str(a.args[1])
            if sl == ":,1":
                rep[a] = -a
            elif sl == "-1,1":
                rep[a] = -SUB(E, sp.Symbol("0,1"))
            else:
                rep[a] = -SUB(E, sp.Symbol("-1,1"))
        mir = e.subs(rep, simultaneous=True)
        res = equal(mir, -e, t)
        if res is True:
            chk.ok("M2", key, c.where, "new y is odd under the mirror map", algebraic=True)
        elif res is False:
            chk.violation("M2", key, c.where, "under symmetry the new spanwise coordinate is %s; on the mirror-image half it becomes %s instead of its negative: the last spanwise node is treated as the root whatever the hand of the half" % (_short(e), _short(mir)), algebraic=True)
        else:
            chk.undecided("M2", key, c.where, "%s vs %s" % (_short(mir), _short(-e)), algebraic=True)
    # Taper / Rotate: idioms that fix the root at the last node, with no orientation test in the class
    for cname in ("Taper", "Rotate"):
        c = repo.cls(G, cname)
        has_pred = any(_orientation_pred(n) is not None for f in c.methods.values() for n in ast.walk(f.node) if isinstance(n, ast.Compare))
        for mn in ("compute", "compute_partials"):
            f = c.methods.get(mn)
            if f is None:
                continue
            hits = []
            for n in ast.walk(f.node):
                if not isinstance(n, ast.If) or "symmetry" not in ast.unparse(n.test):
                    continue
                arm = n.body if not ast.unparse(n.test).strip().startswith("not ") else n.orelse
                for st in arm:
                    for x in ast.walk(st):
                        if isinstance(x, ast.Assign) and isinstance(x.targets[0], ast.Name) and x.targets[0].id == "xp":
                            txt = ast.unparse(x.value).replace(" ", "")
                            if txt in ("np.array([-span,0.0])", "np.array([-span,0])"):
                                hits.append((x, "interpolation nodes [-span, 0]: the root is assumed at the largest y (last node) of the half"))
                        if isinstance(x, ast.Call) and ast.unparse(x.func) in ("np.append", "numpy.append") and len(x.args) == 2 and ast.unparse(x.args[1]) in ("0.0", "0"):
                            hits.append((x, "np.append(theta_x, 0.0): the unrotated root section is the last spanwise node"))
            key = "%s.%s: root fixed at the last spanwise node" % (cname, mn)
            if hits and not has_pred:
                x, why = hits[0]
                chk.violation("M2", key, "%s:%d" % (c.mod.rel, x.lineno), "%s, and %s never tests the hand of the half (VortexMesh / EvalVelMtx do): the transformation acts with the wrong sense on right-hand halves" % (why, cname))
            elif hits:
                chk.ok("M2", key, c.where, "root idiom guarded by an orientation test")
            else:
                chk.info("M2", key, c.where, "no last-node root idiom in the symmetry arm")


def m3(chk, repo):
    chk.rule("M3", "for a right-hand half EvalVelMtx re-indexes the influence array by reversing its spanwise axis only (axis 2 of [point, chordwise, spanwise, component]) -- the same operation in set-up (index array of the sparsity pattern) and in compute; a reversal of an axis obtained by merging the chordwise and spanwise axes would reverse the chordwise order as well", min_decided=2)
    c = repo.cls(A + "eval_mtx.py", "EvalVelMtx")
    for mn, f in c.methods.items():
        for n in ast.walk(f.node):
            if not (isinstance(n, ast.If) and "right_wing" in ast.unparse(n.test) and not ast.unparse(n.test).strip().startswith("not ")):
                continue
            key = "EvalVelMtx.%s: right-wing re-indexing (line text: %s)" % (mn, " ".join(ast.unparse(n.body[0]).split())[:60])
            wh = "%s:%d" % (c.mod.rel, n.lineno)
            revs, merged = [], {}
            for st in n.body:
                for x in ast.walk(st):
                    if isinstance(x, ast.Assign) and isinstance(x.targets[0], ast.Name) and isinstance(x.value, ast.Call) and isinstance(x.value.func, ast.Attribute) and x.value.func.attr == "reshape":
                        shp = x.value.args[0] if len(x.value.args) == 1 else ast.Tuple(elts=list(x.value.args))
                        if isinstance(shp, ast.Tuple) and any(isinstance(e_, ast.UnaryOp) and isinstance(e_.operand, ast.Constant) and e_.operand.value == 1 for e_ in shp.elts):
                            merged[x.targets[0].id] = [i for i, e_ in enumerate(shp.elts) if isinstance(e_, ast.UnaryOp)][0]
                    if isinstance(x, ast.Subscript):
                        elts = x.slice.elts if isinstance(x.slice, ast.Tuple) else [x.slice]
                        ax = [i for i, e_ in enumerate(elts) if isinstance(e_, ast.Slice) and e_.lower is None and e_.upper is None and isinstance(e_.step, ast.UnaryOp) and isinstance(e_.step.operand, ast.Constant) and e_.step.operand.value == 1]
                        if ax:
                            revs.append((x, len(elts), ax))
            if not revs:
                chk.undecided("M3", key, wh, "no reversing subscript found under the orientation test")
                continue
            bad = None
            for x, nel, ax in revs:
                base = x.value.id if isinstance(x.value, ast.Name) else None
                if base in merged and merged[base] in ax:
                    bad = "reverses axis %d of '%s', which is the chordwise and spanwise axes merged by reshape(-1): the chordwise order is reversed too" % (merged[base], base)
                elif not (nel == 4 and ax == [2]):
                    if base in merged or nel != 4:
                        bad = bad or None
                        chk.undecided("M3", key, wh, "reversal %s not in the recognised 4-axis form" % ast.unparse(x)[:60])
                        bad = "skip"
                    else:
                        bad = "reverses axis %s of the 4-axis influence array; a right-hand half differs from a left-hand half in the spanwise numbering (axis 2) only" % ax
            if bad and bad != "skip":
                chk.violation("M3", key, wh, bad)
            elif not bad:
                chk.ok("M3", key, wh, "spanwise axis reversed")


import re as _re

_ORIENT = _re.compile(r"abs\((?P<s>[A-Za-z_.]+(?:\[\w+\])?)\['mesh'\]\[\(0, (?:0|-1), 1\)\]\)\s*[<>]=?\s*abs\((?P=s)\['mesh'\]")


def m4(chk, repo):
    """Only a symmetric half has a hand."""
    from .common import all_models, NEVER_INSTANTIATED, POSTPROCESSING

    chk.rule("M4", "the orientation predicate (|y| of the first against the last spanwise node of the configuration mesh) is consulted only for surfaces modelled with symmetry: in every option valuation of every component method in which the predicate decides something, the symmetry flag of the same surface has been consulted and is true.  A full-span surface has no hand; branching on which of its tips is further from y=0 treats a laterally offset or unequal-span wing differently from its mirror image", min_decided=5)
    for m in all_models(repo, chk):
        c = m.cls
        if c.name in POSTPROCESSING or c.name in NEVER_INSTANTIATED:
            continue
        for mname, runs in m.runs.items():
            seen = {}
            for r in runs:
                for k in r.sigma:
                    mo = _ORIENT.search(k)
                    if not mo:
                        continue
                    surf = mo.group("s")
                    symk = [k2 for k2 in r.sigma if k2.replace(" ", "") in ("%s['symmetry']" % surf, "%s[\"symmetry\"]" % surf)]
                    ok = bool(symk) and all(r.sigma[k2] for k2 in symk)
                    if not symk and mname not in ("setup", "configure", "initialize", "__init__"):
                        # the flag may be implied: setup() refuses the other value under this valuation
                        # (ground effect without symmetry raises), so every setup valuation that can
                        # precede this run has the flag set
                        svs = m.setup_for(r.sigma)
                        if svs and all(any(k2.replace(" ", "") == "%s['symmetry']" % surf and v2 for k2, v2 in sv.sigma.items()) for sv in svs):
                            ok = True
                    key = "%s.%s: orientation of %s" % (c.name, mname, surf)
                    st = seen.setdefault(key, [])
                    st.append((ok, sig_txt(r.sigma)))
            for key, lst in sorted(seen.items()):
                bad = [t for ok, t in lst if not ok]
                if bad:
                    chk.violation("M4", key, c.where, "the orientation predicate is consulted while the surface's symmetry flag is false or was never consulted (valuation %s): the hand of a full-span surface decides a branch, so the mirror image of a laterally offset / unequal-span wing is not treated as its mirror image" % bad[0])
                else:
                    chk.ok("M4", key, c.where, "consulted under symmetry only (%d valuations)" % len(lst))


def run(chk, repo, tier):
    m1(chk, repo)
    m2(chk, repo)
    m3(chk, repo)
    m4(chk, repo)
