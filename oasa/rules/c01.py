"""C01 -- analytic partials equal true derivatives (structural clauses)."""
from ..model import EVAL_METHODS, LIN_METHODS, tmpl_match
from .common import all_models, merged, norm_name, sig_txt, where, POSTPROCESSING, NEVER_INSTANTIATED

P3_EXEMPT = {
    ("CreateRHS", "forces", "total_loads"): "documented tiny-load zeroing threshold (abs < 1e-6 -> 0) on an otherwise linear map",
}

P4_EXEMPT_PREDS = {
    # predicate present in both compute and compute_partials -> not a finding anyway
}


def is_matrix_free(m):
    return "compute_jacvec_product" in m.cls.methods or "apply_linear" in m.cls.methods


class _Sig:
    def __init__(self, sigma):
        self.sigma = sigma


def is_peeled(m, mname):
    for r in m.runs.get(mname, []):
        if any("[0]" in k for k in r.sigma):
            return True
        for e in r.events:
            if e.kind == "store" and e.cell and any("[0]" in str(x) for x in e.cell[1:]):
                return True
    return False


def runs_for_pair(m, mname, sv, names):
    """Runs of ``mname`` that describe the same surface as a pair declared in
    setup valuation ``sv`` -- yields (run, renamed names).  A pair declared in
    the peeled first iteration ([0]) is compared with an unpeeled method's
    generic run whose per-surface atoms, renamed to the first surface, agree."""
    first = any("[0]" in (n or "") for n in names)
    peeled = is_peeled(m, mname)
    for r in m.runs.get(mname, []):
        if r.final is None:
            continue
        if first and not peeled:
            ren = {k.replace("[i]", "[0]"): v for k, v in r.sigma.items()}
            if any(k in sv.sigma and sv.sigma[k] != v for k, v in ren.items()):
                continue
            yield r, tuple((n or "").replace("[0]", "[i]") for n in names)
        else:
            if not r.compatible(sv.sigma):
                continue
            yield r, tuple(names)


def out_deps(run, implicit):
    """{output template: set of sources} at the end of an evaluation run."""
    res = {}
    if run.final is None:
        return res
    role = "res" if implicit else "out"
    for oid, o in run.final.heap.items():
        if isinstance(oid, tuple) and oid[0] == role:
            res[oid[1]] = set(o.dep)
    return res


def p1_p2(chk, repo, tier):
    chk.rule("P1", "every input (state) that may flow into a stored output/residual is covered by a declare_partials record under every compatible option valuation", min_decided=150)
    chk.rule("P2", "every declared analytic pair that is a real dependency is stored in compute_partials/linearize under every compatible valuation, and every stored key is declared", min_decided=100)
    for m in all_models(repo, chk):
        c = m.cls
        if c.name in POSTPROCESSING:
            chk.info("scope", c.name, c.where, "out of scope: " + POSTPROCESSING[c.name])
            continue
        if c.name in NEVER_INSTANTIATED:
            chk.info("scope", c.name, c.where, "out of scope: " + NEVER_INSTANTIATED[c.name])
            continue
        implicit = c.kind == "implicit"
        evm = "apply_nonlinear" if implicit else "compute"
        if evm not in m.runs:
            continue
        mf = is_matrix_free(m)
        lin_name = "linearize" if implicit else "compute_partials"
        for rc in m.runs[evm]:
            if rc.final is None:
                continue
            od = out_deps(rc, implicit)
            for sv in m.setup_for(rc.sigma):
                sig = merged(sv.sigma, rc.sigma)
                pairs = sv.declared_pairs()
                real_pairs = set()
                for o, deps in sorted(od.items()):
                    for src in sorted(deps):
                        kind, _, nm = src.partition(":")
                        if kind == "in":
                            pass
                        elif kind == "out" and implicit:
                            pass
                        else:
                            continue
                        key = "%s: d(%s)/d(%s)" % (c.name, norm_name(o), norm_name(nm))
                        if "?" in (o, nm) or o is None:
                            chk.undecided("P1", key, c.where, "unresolved variable name")
                            continue
                        hit = [p for p in pairs if tmpl_match(p[0], o) and tmpl_match(p[1], nm)]
                        if mf:
                            chk.info("P1", key, c.where, "matrix-free component (checked by C02-S3)")
                            continue
                        # a setup loop that treats its first iteration specially registers the
                        # first and the generic surface separately: each needs its own record
                        variants = [x for x in sv.outputs if tmpl_match(o, x)]
                        if "[0]" in o:
                            variants = [x for x in variants if x == o]
                        else:
                            # the generic compute run describes the first surface only when its
                            # option valuation, renamed, agrees with what setup assumed for it
                            ren = {k.replace("[i]", "[0]"): v for k, v in rc.sigma.items()}
                            if any(sv.sigma.get(k, v) != v for k, v in ren.items()):
                                variants = [x for x in variants if "[0]" not in x]
                        uncovered = [x for x in variants if not any(p[0] == x and tmpl_match(p[1], nm) for p in pairs)] if len(variants) > 1 else []
                        if hit and uncovered:
                            chk.violation("P1", key, c.where, "%s of %s depends on input '%s' under %s but setup declares the pair only for %s, not for %s (iteration-dependent declaration)" % (evm, o, nm, sig_txt(sig), sorted(set(variants) - set(uncovered)), sorted(uncovered)))
                        elif hit:
                            chk.ok("P1", key, c.where, "declared")
                            exact = [h for h in hit if h[0] == o and h[1] == nm]
                            for h in exact or hit:
                                real_pairs.add((o, nm, h))
                        else:
                            # is the name an input at all under this valuation?
                            tbl = dict(sv.inputs, **sv.outputs)
                            if not any(tmpl_match(nm, x) for x in tbl) or not any(tmpl_match(o, x) for x in sv.outputs):
                                chk.undecided("P1", key, c.where, "variable not declared under valuation %s" % sig_txt(sig))
                                continue
                            chk.violation("P1", key, c.where, "%s of %s depends on input '%s' under %s but no declare_partials record covers the pair (framework uses a zero block)" % (evm, o, nm, sig_txt(sig)))
                # ---- P2
                if mf or lin_name not in m.runs and not any(True for _ in ()):  # no lin method: only val=/method= pairs allowed
                    pass
                lin_runs = [rl for rl in m.runs.get(lin_name, []) if rl.compatible(sig) and rl.final is not None]
                same_peel = is_peeled(m, evm) == is_peeled(m, lin_name)
                for (odn, wdn, pair) in sorted(real_pairs):
                    decls = pairs[pair]
                    key = "%s: partials[%s, %s]" % (c.name, norm_name(odn), norm_name(wdn))
                    analytic = [d for d in decls if d.val is None and d.method is None and d.dependent is None]
                    if not analytic or len(analytic) != len(decls):
                        continue
                    if mf:
                        continue
                    if not m.runs.get(lin_name):
                        chk.violation("P2", key, where(c, decls[0].lineno), "pair declared without val=/method= but the component has no %s" % lin_name)
                        continue
                    for rl in lin_runs:
                        stored = False
                        for e in rl.events:
                            if e.kind == "store" and e.cell and e.cell[0] == "partials":
                                if (e.cell[1] == odn and e.cell[2] == wdn) or (not same_peel and tmpl_match(e.cell[1], odn) and tmpl_match(e.cell[2], wdn)):
                                    stored = True
                                    break
                        s2 = merged(sig, rl.sigma)
                        if stored:
                            chk.ok("P2", key, where(c, decls[0].lineno), "stored")
                        elif any(e.kind == "store" and e.cell and e.cell[0] == "partials" and "?" in e.cell[1:] for e in rl.events):
                            chk.undecided("P2", key, where(c, decls[0].lineno), "a store to an unresolved partials key may be this block")
                        else:
                            chk.violation("P2", key, where(c, decls[0].lineno), "declared analytic pair is a real dependency of %s but %s never stores it under %s (stale or zero block)" % (evm, lin_name, sig_txt(s2)))
                # stored but undeclared keys
                for rl in lin_runs:
                    for e in rl.events:
                        if e.kind == "store" and e.cell and e.cell[0] == "partials":
                            o, w = e.cell[1], e.cell[2]
                            key = "%s: store partials[%s, %s]" % (c.name, norm_name(o), norm_name(w))
                            if "?" in (o, w):
                                chk.undecided("P2", key, where(c, e.lineno), "unresolved key")
                                continue
                            if any(tmpl_match(p[0], o) and tmpl_match(p[1], w) for p in pairs):
                                chk.ok("P2", key, where(c, e.lineno), "declared")
                            else:
                                chk.violation("P2", key, where(c, e.lineno), "%s stores partials[%s, %s] which is not declared under %s" % (lin_name, o, w, sig_txt(merged(sig, rl.sigma))))




# --------------------------------------------------------------------------- P4
import ast as _ast
import sympy as sp


def pred_signature(ev):
    """Renaming-insensitive signature of an input-valued predicate: the inputs
    it may depend on, its comparison operators and its literal constants."""
    node = ev.node.test if hasattr(ev.node, "test") else ev.node
    ops = []
    consts = []
    for n in _ast.walk(node):
        if isinstance(n, _ast.Compare):
            ops.extend(type(o).__name__ for o in n.ops)
        elif isinstance(n, _ast.Constant) and isinstance(n.value, (int, float)) and not isinstance(n.value, bool):
            consts.append(float(n.value))
        elif isinstance(n, (_ast.Not, _ast.And, _ast.Or)):
            ops.append(type(n).__name__)
    deps = tuple(sorted(norm_name(d) for d in ev.dep if d.startswith(("in:", "out:"))))
    return (deps, tuple(sorted(ops)), tuple(sorted(consts)))


def controlled_stores(run, test_ev, roles):
    ln = test_ev.lineno
    out = []
    for e in run.events:
        if e.kind == "store" and e.cell and e.cell[0] in roles:
            if any(p[2] == ln for p in e.preds):
                out.append(e)
    return out


def p4(chk, repo, tier):
    chk.rule("P4", "the input-valued predicates controlling stores in compute_partials/linearize equal those controlling stores in compute/apply_nonlinear (a smooth value has no special-case derivative; a branching value needs the branch in its derivative)", min_decided=1)
    for m in all_models(repo):
        c = m.cls
        if c.name in POSTPROCESSING or c.name in NEVER_INSTANTIATED:
            continue
        implicit = c.kind == "implicit"
        evm = "apply_nonlinear" if implicit else "compute"
        lin = "linearize" if implicit else "compute_partials"
        if evm not in m.runs or lin not in m.runs:
            continue

        def collect(mname, roles):
            sigs = {}
            for r in m.runs[mname]:
                if r.final is None:
                    continue
                for e in r.events:
                    if e.kind != "test" or e.depth != 0 and False:
                        continue
                    if not any(d.startswith(("in:", "out:")) for d in e.dep):
                        continue
                    ctl = controlled_stores(r, e, roles)
                    if not ctl and not e.d.get("expr"):
                        # does any later store depend on values assigned under the test?
                        # (conservatively) keep tests whose arms assign locals
                        pass
                    sigs.setdefault(pred_signature(e), []).append((r, e, ctl))
            return sigs

        ev_sigs = collect(evm, ("out", "res"))
        lin_sigs = collect(lin, ("partials",))
        for sig, lst in lin_sigs.items():
            r, e, ctl = lst[0]
            key = "%s.%s: if %s" % (c.name, lin, " ".join(unparse_test(e).split()))
            if sig in ev_sigs:
                chk.ok("P4", key, where(c, e.lineno), "same predicate controls %s" % evm)
            else:
                chk.violation(
                    "P4",
                    key,
                    where(c, e.lineno),
                    "%s branches on the input-valued predicate '%s' (inputs %s) but %s has no such branch: a special-case derivative for a value computed by one formula" % (lin, unparse_test(e), list(sig[0]), evm),
                )
        for sig, lst in ev_sigs.items():
            r, e, ctl = lst[0]
            key = "%s.%s: if %s" % (c.name, evm, " ".join(unparse_test(e).split()))
            if sig in lin_sigs:
                chk.ok("P4", key, where(c, e.lineno), "same predicate controls %s" % lin)
            else:
                # only a finding if an analytic partial of a controlled output exists
                outs = {x.cell[1] for x in ctl}
                analytic = False
                for sv in m.setup_views:
                    for (o, w), decls in sv.declared_pairs().items():
                        if any(tmpl_match(o, oo) for oo in outs) and any(d.val is None and d.method is None for d in decls):
                            analytic = True
                if not outs:
                    chk.undecided("P4", key, where(c, e.lineno), "predicate does not directly control an output store")
                elif analytic:
                    chk.violation("P4", key, where(c, e.lineno), "%s branches on '%s' when storing %s but %s does not: the derivative ignores the branch" % (evm, unparse_test(e), sorted(outs), lin))
                else:
                    chk.info("P4", key, where(c, e.lineno), "branching value with approximated (cs/fd) or constant partials")


def unparse_test(e):
    from ..load import unparse

    node = e.node.test if hasattr(e.node, "test") else e.node
    return unparse(node)


def run(chk, repo, tier):
    p1_p2(chk, repo, tier)
    p4(chk, repo, tier)
    p3(chk, repo, tier)
    p6(chk, repo, tier)
    p6b(chk, repo, tier)
    p7(chk, repo, tier)
    p10(chk, repo, tier)
    p11(chk, repo, tier)


def p11(chk, repo, tier):
    """A block assigned only on one input-dependent branch is stale on the other (shared with C03-R8)."""
    from .c03 import r8

    r8(chk, repo, all_models(repo, chk), rule="P11")


def p10(chk, repo, tier):
    """A Jacobian block of surface k computed with a quantity of another surface."""
    from .c19 import o2

    o2(chk, repo, all_models(repo, chk), rule="P10", methods=set(LIN_METHODS) | {"setup"}, min_decided=8,
       text="in setup and in the linearisation methods, a value derived from the element of one loop over surfaces/sections (a size, an input view, a name) is not used in a later loop over the same list without being re-derived there: otherwise every surface's Jacobian block is built from the last surface's value")


# --------------------------------------------------------------------------- P6b
import re as _re


def p6b(chk, repo, tier):
    """Numbered sibling index arrays (quadrant_1_indices ... quadrant_4_indices) are
    turned into Jacobian rows by the same expression."""
    chk.rule("P6b", "sibling agreement of the row construction: inside one setup(), the statements that append the rows of numbered sibling index arrays (<stem>_<k>_indices) to the sparsity pattern have the same form for every sibling once the sibling number, the loop variable and the base case are abstracted (rows of the k-th block are laid out like those of the other blocks, so that they pair with the column blocks in the same order)", min_decided=1)
    pat = _re.compile(r"\b([A-Za-z]+)_(\d+)_indices\b")
    for c in repo.components():
        if c.name in POSTPROCESSING or c.name in NEVER_INSTANTIATED:
            continue
        f = c.methods.get("setup")
        if f is None:
            continue
        forms = {}  # (target, normalised text of the sibling-dependent sub-expression) -> {k: [stmt]}
        sibs = set()
        for n in _ast.walk(f.node):
            if not isinstance(n, _ast.Assign) or len(n.targets) != 1 or not isinstance(n.targets[0], _ast.Name):
                continue
            txt = _ast.unparse(n.value)
            ms = pat.findall(txt)
            if not ms or len({k for _, k in ms}) != 1:
                continue
            stem, k = ms[0]
            sibs.add(k)
            # innermost call / subscript chain that contains the sibling name
            sub = None
            for x in _ast.walk(n.value):
                if isinstance(x, (_ast.Call, _ast.Subscript)) and pat.search(_ast.unparse(x)):
                    tx = _ast.unparse(x)
                    if sub is None or len(tx) > len(sub):
                        # prefer the largest expression that does not mention the target itself
                        if not _re.search(r"\b%s\b" % n.targets[0].id, tx):
                            sub = tx
            if sub is None:
                continue
            norm = pat.sub(r"\1_K_indices", sub)
            # abstract the component index expression (last subscript element) and spaces
            norm = _re.sub(r"\[(-?1|:-1), :, [A-Za-z_0-9:]+\]", r"[\1, :, D]", norm)
            forms.setdefault((n.targets[0].id, stem), {}).setdefault(norm, {}).setdefault(k, []).append(n)
        for (tgt, stem), byform in forms.items():
            allk = sorted({k for d in byform.values() for k in d})
            if len(allk) < 3:
                continue
            # forms shared by at least two siblings are the reference forms
            shared = {fm for fm, d in byform.items() if len(d) >= 2}
            for fm, d in byform.items():
                for k, stmts in d.items():
                    key = "%s.setup: %s from %s_%s_indices (line text: %s)" % (c.name, tgt, stem, k, " ".join(fm.split())[:70])
                    if fm in shared:
                        chk.ok("P6b", key, where(c, stmts[0].lineno), "same form as siblings %s" % sorted(set(d) - {k}))
                    else:
                        # a form used by one sibling only: deviant if that sibling has no shared form of the same head function
                        head = fm.split("(")[0]
                        alts = [g for g in shared if g.split("(")[0] != head and any(_re.sub(r"np\.\w+", "F", g) == _re.sub(r"np\.\w+", "F", fm) for _ in [0])]
                        same_head_shared = [g for g in shared if g.split("(")[0] == head]
                        ref = [g for g in shared if _re.sub(r"^np\.\w+", "", g)[:1] == _re.sub(r"^np\.\w+", "", fm)[:1]]
                        if shared and not same_head_shared and fm.startswith("np.") and any(g.startswith("np.") for g in shared):
                            chk.violation("P6b", key, where(c, stmts[0].lineno), "the rows of block %s are built with '%s' while its sibling blocks use '%s': the entries are laid out in a different order than the column blocks they pair with (misplaced non-zeros)" % (k, " ".join(fm.split())[:90], " ".join(sorted(shared)[0].split())[:90]))
                        else:
                            chk.info("P6b", key, where(c, stmts[0].lineno), "form used by one sibling only (base case)")


# --------------------------------------------------------------------------- P6
def p6(chk, repo, tier):
    """Sibling arms that build Jacobian index arrays apply the same reversals."""
    chk.rule("P6", "sibling agreement of the sparsity-pattern construction: within one setup(), every arm guarded by the same orientation / option test that re-indexes the index arrays of a Jacobian (X = X[..., ::-1, ...]) reverses the same set of arrays as its sibling arms (row and column index arrays are flipped together, in every branch that builds a pattern)", min_decided=1)
    for c in repo.components():
        if c.name in POSTPROCESSING or c.name in NEVER_INSTANTIATED:
            continue
        f = c.methods.get("setup")
        if f is None:
            continue
        groups = {}
        for n in _ast.walk(f.node):
            if not isinstance(n, _ast.If):
                continue
            rev = set()
            for st in n.body:
                if isinstance(st, _ast.Assign) and len(st.targets) == 1 and isinstance(st.targets[0], _ast.Name) and isinstance(st.value, _ast.Subscript) and isinstance(st.value.value, _ast.Name) and st.value.value.id == st.targets[0].id:
                    sl = st.value.slice
                    elts = sl.elts if isinstance(sl, _ast.Tuple) else [sl]
                    if any(isinstance(e, _ast.Slice) and e.lower is None and e.upper is None and isinstance(e.step, _ast.UnaryOp) and isinstance(e.step.op, _ast.USub) and isinstance(e.step.operand, _ast.Constant) and e.step.operand.value == 1 for e in elts):
                        rev.add(st.targets[0].id)
            if rev:
                groups.setdefault(" ".join(_ast.unparse(n.test).split()), []).append((n, frozenset(rev)))
        for test, arms in groups.items():
            if len(arms) < 2:
                continue
            sets = {}
            for n, rv in arms:
                sets.setdefault(rv, []).append(n)
            major = max(sets.items(), key=lambda kv: (len(kv[1]), len(kv[0])))
            for rv, nodes in sets.items():
                for n in nodes:
                    key = "%s.setup: if %s (arm %d of %d)" % (c.name, test, arms.index((n, rv)) + 1, len(arms))
                    if rv == major[0]:
                        chk.ok("P6", key, where(c, n.lineno), "reverses %s" % sorted(rv))
                    else:
                        chk.violation("P6", key, where(c, n.lineno), "this arm reverses %s but its sibling arm(s) under the same test reverse %s: rows and columns of the declared pattern are not re-indexed together (misplaced non-zeros for the configurations that take this arm)" % (sorted(rv), sorted(major[0])))


# --------------------------------------------------------------------------- P3
def p3(chk, repo, tier):
    from ..domains import Lin
    from ..model import component_model

    chk.rule("P3", "a pair declared with a constant Jacobian (val=) is affine in that input with configuration-only coefficients under every valuation (LIN domain: sums, slices, reshapes, reductions, products with configuration values)", min_decided=40)
    for c in repo.components():
        if c.name in POSTPROCESSING or c.name in NEVER_INSTANTIATED:
            continue
        m0 = component_model(repo, c)
        has_val = any(d.val is not None for sv in m0.setup_views for d in sv.decls)
        if not has_val:
            continue
        m = component_model(repo, c, domains=(Lin,))
        implicit = c.kind == "implicit"
        evm = "apply_nonlinear" if implicit else "compute"
        role = "res" if implicit else "out"
        peeled_eval = any("[0]" in k for rc in m.runs.get(evm, []) for k in rc.sigma) or any(isinstance(oid, tuple) and oid[0] == role and "[0]" in str(oid[1]) for rc in m.runs.get(evm, []) if rc.final is not None for oid in rc.final.heap)
        for sv in m.setup_views:
            for (o, w), decls in sorted(sv.declared_pairs().items()):
                vd = [d for d in decls if d.val is not None]
                if not vd:
                    continue
                key = "%s: val= partial d(%s)/d(%s)" % (c.name, norm_name(o), norm_name(w))
                wh = where(c, vd[0].lineno)
                ex = P3_EXEMPT.get((c.name, o, w))
                if ex:
                    chk.info("P3", key, wh, "exempt: " + ex)
                    continue
                first = "[0]" in o + w
                for rc in m.runs.get(evm, []):
                    if rc.final is None:
                        continue
                    # the same surface must be meant on both sides: a pair declared in the
                    # peeled first iteration is compared with the generic evaluation run
                    # whose per-surface atoms, renamed to the first surface, agree
                    if first and not peeled_eval:
                        ren = {k.replace("[i]", "[0]"): v_ for k, v_ in rc.sigma.items()}
                        if any(k in sv.sigma and sv.sigma[k] != v_ for k, v_ in ren.items()):
                            continue
                        on, wn = o.replace("[0]", "[i]"), w.replace("[0]", "[i]")
                    else:
                        if not rc.compatible(sv.sigma):
                            continue
                        on, wn = o, w
                    sig = merged(sv.sigma, rc.sigma)
                    lin = None
                    found = False
                    for oid, ob in rc.final.heap.items():
                        if isinstance(oid, tuple) and oid[0] == role and oid[1] == on:
                            found = True
                            dd = ob.dom.get("LIN", {})
                            for k, cl in dd.items():
                                kind, _, nm = k.partition(":")
                                if nm == wn and (kind == "in" or (kind == "out" and implicit)):
                                    lin = cl if lin is None or cl == "N" else lin
                    if not found:
                        chk.undecided("P3", key, wh, "output not stored under %s" % sig_txt(sig))
                    elif lin is None:
                        chk.undecided("P3", key, wh, "no dependence found (constant partial of an independent pair)")
                    elif lin == "C":
                        chk.ok("P3", key, wh, "affine with configuration-only coefficient")
                    else:
                        chk.violation("P3", key, wh, "declared with a constant Jacobian (val=) but %s is not affine in '%s' with input-independent coefficients under %s: the framework keeps using the constant" % (evm, w, sig_txt(sig)))




# --------------------------------------------------------------------------- P7
def p7(chk, repo, tier, only=None, rule="P7"):
    """Derivative identity for scalar / element-wise components (E5)."""
    from ..model import component_model
    from ..symx import EYE, SymX, equal, has_array, sdiff

    chk.rule(rule, "stored partial == d(output)/d(input) as an identity of the expressions extracted from compute and compute_partials (sympy normal form; reductions are an uninterpreted linear functional; surface loops instantiated for generic surfaces)", min_decided=30 if only is None else 5)
    n_und = 0
    for c in repo.components(("explicit",)):
        if c.name in POSTPROCESSING or c.name in NEVER_INSTANTIATED:
            continue
        if only is not None and c.name not in only:
            continue
        if "compute" not in c.methods or "compute_partials" not in c.methods:
            continue
        m = component_model(repo, c, domains=(SymX,))
        for rc in m.runs.get("compute", []):
            if rc.final is None:
                continue
            O = {}
            for oid, ob in rc.final.heap.items():
                if isinstance(oid, tuple) and oid[0] == "out":
                    O[oid[1]] = ob.dom.get("SYMX")
            if not any(v is not None for v in O.values()):
                continue
            tc = rc.domains["SYMX"].table
            for rl in m.runs.get("compute_partials", []):
                if rl.final is None or not rl.compatible(rc.sigma):
                    continue
                tl = rl.domains["SYMX"].table
                tc.arrays |= tl.arrays
                sig = merged(rc.sigma, rl.sigma)
                for oid, ob in rl.final.heap.items():
                    if not (isinstance(oid, tuple) and oid[0] == "partials"):
                        continue
                    o, w = oid[1], oid[2]
                    P = ob.dom.get("SYMX")
                    Oe = O.get(o)
                    key = "%s: d(%s)/d(%s) %s" % (c.name, norm_name(o), norm_name(w), sig_txt(sig))
                    st_ev = [e for e in rl.events if e.kind == "store" and e.cell == oid]
                    wh = where(c, st_ev[-1].lineno) if st_ev else c.where
                    if P is None or Oe is None or ob.dom.get("SYMX_partial") or ob.dom.get("SYMX_idx"):
                        n_und += 1
                        continue
                    # opaque value-numbering atoms are only meaningful within one run
                    if any(sy.name.startswith("opq:") for sy in (P.free_symbols | Oe.free_symbols)) or any(f.func.__name__ in ("EINSUM", "CAT", "SUB") or f.func.__name__.startswith("H_") for f in (P.atoms(sp.Function) | Oe.atoms(sp.Function))):
                        n_und += 1
                        continue
                    # the symbol of the wrt input (all loop passes)
                    cands = [s for nm, s in tc.syms.items() if nm.split("@")[0] == w.replace("[0]", "[i]") or nm == w]
                    tags = {nm.partition("@")[2] for nm, s in tc.syms.items() if s in cands}
                    if not cands:
                        # output does not mention the input at all
                        D = 0
                        r = equal(P, D, tc)
                        cands = []
                    ok_all = True
                    und = False
                    detail = ""
                    if not cands:
                        if r is True:
                            chk.ok(rule, key, wh, "partial is identically zero and the output does not depend on the input", algebraic=True)
                        elif r is False:
                            chk.violation(rule, key, wh, "stored partial %s but %s does not depend on %s" % (P, o, w), algebraic=True)
                        else:
                            chk.undecided(rule, key, wh, "", algebraic=True)
                        continue
                    # which pass does this partial belong to?
                    wtag = ""
                    for l in (st_ev[-1].loops if st_ev else ()):
                        if l.kind == "cfglist":
                            wtag = {"first": "0", "generic": "1", "generic2": "2"}.get(l.tag, "1")
                    sym = None
                    for nm, s in tc.syms.items():
                        if s in cands and (nm.partition("@")[2] == wtag or len(cands) == 1):
                            sym = s
                    if sym is None:
                        n_und += 1
                        continue
                    arr = sym in tc.arrays
                    D = sdiff(Oe, sym, tc, unsig=arr)
                    r = equal(P, D, tc)
                    if r is not True and arr:
                        r2 = equal(P, D * EYE, tc)
                        if r2 is True:
                            r = True
                    if r is True:
                        chk.ok(rule, key, wh, "identity holds", algebraic=True)
                    elif r is False:
                        chk.violation(rule, key, wh, "stored partial is %s but d(%s)/d(%s) of the value computed by compute() is %s (residual not identically zero)" % (sp_short(P), o, w, sp_short(D)), algebraic=True)
                    else:
                        chk.undecided(rule, key, wh, "normal forms not comparable: stored %s vs derivative %s" % (sp_short(P), sp_short(D)), algebraic=True)
    chk.note("%s: %d (output, input) blocks outside the scalar / element-wise fragment were not extracted (tensor Jacobians)" % (rule, n_und))


def sp_short(e):
    s = str(e)
    return s if len(s) < 160 else s[:157] + "..."
