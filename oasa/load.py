"""E1 loader / resolver.

Parses every analysed module of /repo/openaerostruct with ``ast`` (never
imports it), builds the module / class / function tables, import alias maps,
constant-folded module-level constants and a light call resolver.
"""
import ast
import os

REPO = os.environ.get("OAS_REPO", "/repo")
PKG = "openaerostruct"

SKIP_DIRS = {"docs", "examples", "tests", "__pycache__"}
SKIP_FILES = {"testing.py"}

COMPONENT_BASES = {
    "om.ExplicitComponent": "explicit",
    "ExplicitComponent": "explicit",
    "om.ImplicitComponent": "implicit",
    "ImplicitComponent": "implicit",
    "om.Group": "group",
    "Group": "group",
    "om.IndepVarComp": "indep",
}


class AnalysisError(Exception):
    """The analysis itself is broken (vanished anchor, unparsable file...)."""


def unparse(n):
    return ast.unparse(n)


class FuncInfo:
    def __init__(self, mod, node, cls=None):
        self.mod = mod
        self.node = node
        self.cls = cls
        self.name = node.name

    @property
    def qual(self):
        return (self.cls.name + "." if self.cls else "") + self.name

    @property
    def where(self):
        return "%s:%d" % (self.mod.rel, self.node.lineno)

    def __repr__(self):
        return "<Func %s %s>" % (self.mod.rel, self.qual)


class ClassInfo:
    def __init__(self, mod, node):
        self.mod = mod
        self.node = node
        self.name = node.name
        self.bases = [unparse(b) for b in node.bases]
        self.kind = "other"
        for b in self.bases:
            if b in COMPONENT_BASES:
                self.kind = COMPONENT_BASES[b]
        self.methods = {}
        self.class_attrs = {}
        for st in node.body:
            if isinstance(st, ast.FunctionDef):
                self.methods[st.name] = FuncInfo(mod, st, self)
            elif isinstance(st, ast.Assign):
                for t in st.targets:
                    if isinstance(t, ast.Name):
                        self.class_attrs[t.id] = st

    @property
    def where(self):
        return "%s:%d" % (self.mod.rel, self.node.lineno)

    @property
    def key(self):
        return "%s::%s" % (self.mod.rel, self.name)

    def __repr__(self):
        return "<Class %s>" % self.key


class ModuleInfo:
    def __init__(self, path, rel, dotted):
        self.path = path
        self.rel = rel
        self.dotted = dotted
        with open(path, encoding="utf-8") as f:
            self.source = f.read()
        try:
            self.tree = ast.parse(self.source, filename=path)
        except SyntaxError as e:  # pragma: no cover
            raise AnalysisError("cannot parse %s: %s" % (path, e))
        self.lines = self.source.splitlines()
        self.imports = {}  # local name -> dotted target ("numpy", "openaerostruct.x.y:func")
        self.functions = {}
        self.classes = {}
        self.global_assigns = {}  # name -> list of ast.Assign at module level
        self.global_names = set()
        for st in self.tree.body:
            if isinstance(st, ast.Import):
                for a in st.names:
                    self.imports[a.asname or a.name.split(".")[0]] = a.name if a.asname else a.name.split(".")[0]
            elif isinstance(st, ast.ImportFrom):
                for a in st.names:
                    self.imports[a.asname or a.name] = "%s:%s" % (st.module, a.name)
            elif isinstance(st, ast.FunctionDef):
                self.functions[st.name] = FuncInfo(self, st)
                self.global_names.add(st.name)
            elif isinstance(st, ast.ClassDef):
                self.classes[st.name] = ClassInfo(self, st)
                self.global_names.add(st.name)
            elif isinstance(st, (ast.Assign, ast.AugAssign, ast.AnnAssign)):
                tgts = st.targets if isinstance(st, ast.Assign) else [st.target]
                for t in tgts:
                    for n in ast.walk(t):
                        if isinstance(n, ast.Name):
                            self.global_assigns.setdefault(n.id, []).append(st)
                            self.global_names.add(n.id)

    def line(self, lineno):
        try:
            return self.lines[lineno - 1].strip()
        except IndexError:
            return ""


class Repo:
    def __init__(self, root=None):
        self.root = root or REPO
        self.pkgdir = os.path.join(self.root, PKG)
        if not os.path.isdir(self.pkgdir):
            raise AnalysisError("package directory %s not found" % self.pkgdir)
        self.modules = {}  # rel path -> ModuleInfo
        self.by_dotted = {}
        for dp, dn, fn in os.walk(self.pkgdir):
            dn[:] = sorted(d for d in dn if d not in SKIP_DIRS)
            for f in sorted(fn):
                if not f.endswith(".py") or f in SKIP_FILES or f.startswith("plot_"):
                    continue
                p = os.path.join(dp, f)
                rel = os.path.relpath(p, self.root)
                dotted = rel[:-3].replace(os.sep, ".")
                if dotted.endswith(".__init__"):
                    dotted = dotted[: -len(".__init__")]
                m = ModuleInfo(p, rel, dotted)
                self.modules[rel] = m
                self.by_dotted[dotted] = m
        self.classes = {}  # name -> [ClassInfo]
        for m in self.modules.values():
            for c in m.classes.values():
                self.classes.setdefault(c.name, []).append(c)

    # ------------------------------------------------------------------ lookups
    def module(self, rel):
        if not rel.startswith(PKG):
            rel = os.path.join(PKG, rel)
        m = self.modules.get(rel)
        if m is None:
            raise AnalysisError("anchor module %s not found" % rel)
        return m

    def cls(self, rel, name):
        m = self.module(rel)
        c = m.classes.get(name)
        if c is None:
            raise AnalysisError("anchor class %s not found in %s" % (name, rel))
        return c

    def method(self, rel, cname, mname):
        c = self.cls(rel, cname)
        f = c.methods.get(mname)
        if f is None:
            raise AnalysisError("anchor method %s.%s not found in %s" % (cname, mname, rel))
        return f

    def func(self, rel, name):
        m = self.module(rel)
        f = m.functions.get(name)
        if f is None:
            raise AnalysisError("anchor function %s not found in %s" % (name, rel))
        return f

    def components(self, kinds=("explicit", "implicit")):
        out = []
        for m in self.modules.values():
            for c in m.classes.values():
                if c.kind in kinds:
                    out.append(c)
        return sorted(out, key=lambda c: c.key)

    def groups(self):
        return self.components(kinds=("group",))

    def resolve_name(self, mod, name):
        """Resolve a bare name used in ``mod`` to ('func', FuncInfo) / ('class',
        ClassInfo) / ('ext', dotted) / None."""
        if name in mod.functions:
            return ("func", mod.functions[name])
        if name in mod.classes:
            return ("class", mod.classes[name])
        tgt = mod.imports.get(name)
        if tgt is None:
            return None
        if ":" in tgt:
            md, nm = tgt.split(":")
            m2 = self.by_dotted.get(md)
            if m2 is not None:
                if nm in m2.functions:
                    return ("func", m2.functions[nm])
                if nm in m2.classes:
                    return ("class", m2.classes[nm])
                if nm in m2.global_assigns:
                    return ("const", (m2, nm))
                # re-export through __init__
                r = m2.imports.get(nm)
                if r and ":" in r:
                    md3, nm3 = r.split(":")
                    m3 = self.by_dotted.get(md3)
                    if m3 is not None:
                        return self.resolve_name(m3, nm3) or ("ext", r)
                sub = self.by_dotted.get(md + "." + nm)
                if sub is not None:
                    return ("module", sub)
                return None
            return ("ext", tgt)
        m2 = self.by_dotted.get(tgt)
        if m2 is not None:
            return ("module", m2)
        return ("ext", tgt)

    def resolve_call(self, mod, func_node, cls=None):
        """Resolve the callee expression of a Call."""
        if isinstance(func_node, ast.Name):
            return self.resolve_name(mod, func_node.id)
        if isinstance(func_node, ast.Attribute):
            v = func_node.value
            if isinstance(v, ast.Name):
                if v.id == "self" and cls is not None:
                    f = cls.methods.get(func_node.attr)
                    if f is not None:
                        return ("func", f)
                    return ("selfattr", func_node.attr)
                r = self.resolve_name(mod, v.id)
                if r and r[0] == "ext":
                    return ("ext", r[1] + "." + func_node.attr)
                if r and r[0] == "module":
                    m2 = r[1]
                    if func_node.attr in m2.functions:
                        return ("func", m2.functions[func_node.attr])
                    if func_node.attr in m2.classes:
                        return ("class", m2.classes[func_node.attr])
            elif isinstance(v, ast.Attribute):
                inner = self.resolve_call(mod, v, cls)
                if inner and inner[0] == "ext":
                    return ("ext", inner[1] + "." + func_node.attr)
        return None

    def ext_name(self, mod, func_node, cls=None):
        """Canonical dotted external name of a callee, e.g. numpy.sum,
        numpy.linalg.norm, scipy.linalg:lu_solve, or None."""
        r = self.resolve_call(mod, func_node, cls)
        if r and r[0] == "ext":
            return r[1]
        return None


def const_fold(node, env=None):
    """Tiny constant folder for module-level literals (numbers, strings,
    tuples/lists of them, arithmetic).  Returns a python value or raises
    ValueError."""
    env = env or {}
    if isinstance(node, ast.Constant):
        return node.value
    if isinstance(node, (ast.List, ast.Tuple)):
        return [const_fold(e, env) for e in node.elts]
    if isinstance(node, ast.UnaryOp) and isinstance(node.op, (ast.USub, ast.UAdd)):
        v = const_fold(node.operand, env)
        return -v if isinstance(node.op, ast.USub) else v
    if isinstance(node, ast.BinOp):
        a = const_fold(node.left, env)
        b = const_fold(node.right, env)
        if isinstance(node.op, ast.Add):
            return a + b
        if isinstance(node.op, ast.Sub):
            return a - b
        if isinstance(node.op, ast.Mult):
            return a * b
        if isinstance(node.op, ast.Div):
            return a / b
        if isinstance(node.op, ast.Pow):
            return a**b
        if isinstance(node.op, ast.FloorDiv):
            return a // b
    if isinstance(node, ast.Name) and node.id in env:
        return env[node.id]
    if isinstance(node, ast.Call):
        f = unparse(node.func)
        if f in ("np.array", "numpy.array", "np.asarray") and node.args:
            return const_fold(node.args[0], env)
    raise ValueError("not a constant: %s" % unparse(node)[:60])


_REPO_CACHE = {}


def get_repo(root=None):
    root = root or REPO
    if root not in _REPO_CACHE:
        _REPO_CACHE[root] = Repo(root)
    return _REPO_CACHE[root]
