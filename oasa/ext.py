"""EXT domain: half/full-span extensivity typing (C04-X1, C16-W1, C01-P9).

A value has type (h, f, p): it scales like (half-span total)^h * (full-
configuration total)^f; p says that it still carries a panel / element axis
(from the symbolic shape: an axis whose length mentions nx / ny).  Numeric
constants are polymorphic.  None = unknown (never an alarm).

Reductions that remove the last panel axis add one "total": a half-span total
(h+1) when the surface is analysed with symmetry, a full total (f+1) when not.
The *doubling factor* (x *= 2 / x /= 2 in a symmetry arm, or a local that is 2
under symmetry and 1 otherwise) converts (h, f) -> (h-1, f+1) (resp. back).
"""
import ast
from fractions import Fraction

from .absval import register_domain
from .domains import Domain
from .load import unparse

# roles of inputs / configuration values: name suffix -> (h, f)
ROLE_SCALARS = {
    "S_ref": (0, 1), "S_ref_total": (0, 1), "structural_mass": (0, 1), "fuel_mass": (0, 1), "fuelburn": (0, 1),
    "W0": (0, 1), "total_weight": (0, 1), "L": (0, 1), "D": (0, 1), "M": (0, 1),
    "Wf_reserve": (0, 1),
}
OBSERVED = {"L", "D", "CL1", "CDi", "CDv", "CDw", "CD", "CL", "S_ref", "structural_mass", "cg_location", "M", "CM", "fuel_vol_delta_norm"}
NONLINEAR = {"sin", "cos", "tan", "exp", "log", "log10", "arctan", "arccos", "arcsin", "tanh"}


class T:
    __slots__ = ("h", "f", "p", "const", "dbl")

    def __init__(self, h=0, f=0, p=False, const=False, dbl=False):
        self.h = Fraction(h)
        self.f = Fraction(f)
        self.p = p
        self.const = const
        self.dbl = dbl

    def key(self):
        return (self.h, self.f, self.p, self.const, self.dbl)

    def __eq__(self, o):
        return isinstance(o, T) and self.key() == o.key()

    def __hash__(self):
        return hash(self.key())

    def __repr__(self):
        if self.dbl:
            return "DOUBLER"
        if self.const:
            return "const"
        return "(%s,%s%s)" % (self.h, self.f, ",panel" if self.p else "")


CONST = T(const=True)


def has_panel(shape):
    """True: some axis has a symbolic (mesh-size dependent) extent; False: all
    extents are small literals; None: unknown."""
    if shape is None:
        return None
    unknown = False
    for d in shape:
        if d is None:
            unknown = True
            continue
        try:
            if d.free_symbols:
                return True
        except AttributeError:
            pass
    return None if unknown else False


class Ext(Domain):
    name = "EXT"

    def __init__(self):
        super().__init__()
        self.conflicts = []
        self._parents = {}
        self._stmt_of = {}

    def bottom(self):
        return None

    def join(self, a, b):
        if a is None or b is None:
            return None
        if a == b:
            return a
        if a.const and not a.dbl:
            return b
        if b.const and not b.dbl:
            return a
        if (a.h, a.f) == (b.h, b.f) and not a.dbl and not b.dbl:
            return T(a.h, a.f, a.p or b.p)
        return None

    # ---- context
    def symmetric(self, it):
        """True / False / None: is the surface of the current context analysed
        with symmetry under this valuation?"""
        ph = None
        for l in reversed(it.loops):
            if l.kind == "cfglist":
                ph = "[0]" if l.tag == "first" else "[i]"
                break
        cands = [(k, v) for k, v in it.sigma.items() if "['symmetry']" in k and not k.startswith("not ")]
        if ph is not None:
            c2 = [(k, v) for k, v in cands if ph in k]
            if c2:
                return c2[0][1]
        c2 = [(k, v) for k, v in cands if "[i]" not in k and "[0]" not in k]
        if c2:
            return c2[0][1]
        if len(cands) == 1:
            return cands[0][1]
        return None

    def in_sym_arm(self, it, stmt):
        """Is the statement executed under `if symmetry` -- lexically in its own function, or
        because the call that reached it (helpers interpreted at the call site) is?"""
        if self._in_sym_arm_of(it.frames[-1].func.node, stmt):
            return True
        for i in range(len(it.frames) - 1, 0, -1):
            cs = getattr(it.frames[i], "callsite", None)
            if cs is None:
                break
            f = it.frames[i - 1].func.node
            sm = self._stmt_of.get(id(f))
            if sm is None:
                sm = {}
                for st_ in ast.walk(f):
                    if isinstance(st_, ast.stmt):
                        for sub in ast.walk(st_):
                            sm[id(sub)] = st_  # breadth-first: inner statements overwrite outer ones
                self._stmt_of[id(f)] = sm
            outer = sm.get(id(cs))
            if outer is not None and self._in_sym_arm_of(f, outer):
                return True
        return False

    def _in_sym_arm_of(self, f, stmt):
        pm = self._parents.get(id(f))
        if pm is None:
            pm = {}
            for n in ast.walk(f):
                for fld in ("body", "orelse"):
                    for ch in getattr(n, fld, []) if isinstance(getattr(n, fld, None), list) else []:
                        pm[id(ch)] = (n, fld)
            self._parents[id(f)] = pm
        cur = stmt
        while id(cur) in pm:
            par, fld = pm[id(cur)]
            if isinstance(par, ast.If) and "symmetry" in unparse(par.test).lower() or (isinstance(par, ast.If) and "is_sym" in unparse(par.test)):
                neg = unparse(par.test).strip().startswith("not ")
                if (fld == "body") != neg:
                    return True
            cur = par
        return False

    def conflict(self, it, node, msg):
        fr = it.frames[-1].func
        self.conflicts.append((fr.mod.rel, getattr(node, "lineno", 0), fr.qual, msg))

    # ---- operations
    def mul(self, a, b, div=False):
        if a is None or b is None:
            return None
        sg = -1 if div else 1
        if b.dbl and not a.dbl:
            if a.const:
                return T(const=True, dbl=not div) if not div else CONST
            return T(a.h - sg, a.f + sg, a.p)
        if a.dbl and not b.dbl and not div:
            if b.const:
                return T(const=True, dbl=True)
            return T(b.h - 1, b.f + 1, b.p)
        if a.dbl or b.dbl:
            return CONST if (a.dbl and b.dbl and div) else None
        if a.const and b.const:
            return CONST
        ah, af = (0, 0) if a.const else (a.h, a.f)
        bh, bf = (0, 0) if b.const else (b.h, b.f)
        return T(ah + sg * bh, af + sg * bf, a.p or b.p)

    def add(self, it, node, a, b):
        if a is None or b is None:
            return None
        if a.dbl or b.dbl:
            return None
        if a.const:
            return b
        if b.const:
            return a
        if (a.h, a.f) != (b.h, b.f):
            self.conflict(it, node, "adds quantities of different extensivity %s and %s (a half-span total mixed with a full / intensive quantity)" % (a, b))
            return None
        return T(a.h, a.f, a.p or b.p)

    def reduce(self, it, a, res_panel):
        """reduction over axes; res_panel: does the result still carry a panel axis?"""
        if a is None:
            return None
        if a.const or a.dbl:
            return a
        if a.p and res_panel is False:
            sym = self.symmetric(it)
            if sym is False:
                return T(a.h, a.f + 1, False)
            return T(a.h + 1, a.f, False)
        return T(a.h, a.f, a.p if res_panel is None else bool(res_panel))

    def double(self, it, node, a, half=False):
        if a is None:
            return None
        if a.const:
            return a
        if half:
            return T(a.h + 1, a.f - 1, a.p)
        if not a.p and a.h <= 0:
            self.conflict(it, node, "doubles %s under symmetry, but the value is not a half-span total (type %s): an intensive or already-complete quantity is counted twice" % (unparse(node)[:60] if node is not None else "a value", a))
            return None
        return T(a.h - 1, a.f + 1, a.p)

    # ---- inputs
    def input_type(self, it, cell, v):
        name = cell[1]
        base = name.split(">_")[-1] if ">_" in name else name
        p = has_panel(v.shape)
        if base in ROLE_SCALARS and not p:
            h, f = ROLE_SCALARS[base]
            return T(h, f, False)
        return T(0, 0, bool(p))

    # ---- hooks
    def on_store(self, it, obj, v, ev, st):
        d = v.dom.get(self.name)
        if d is None and v.kind == "num" and v.cfg:
            d = CONST
        op = ev.d.get("op")
        stmt = ev.node
        cur = obj.dom.get(self.name)
        if cur is None and self.name not in obj.dom:
            base = ev.d.get("base")
            if base is not None and base.kind != "vec":
                cur = base.dom.get(self.name)
        two = _is_two(stmt)
        if op in ("*=", "/=") and two and self.in_sym_arm(it, stmt):
            new = self.double(it, stmt, cur, half=(op == "/="))
        elif op == "=":
            whole = ev.d.get("whole") or ev.d.get("region") == "whole"
            if whole or cur is None or cur.const:
                new = d
                if new is not None and not new.const and not new.dbl:
                    p = has_panel(obj.shape)
                    if p is not None:
                        new = T(new.h, new.f, p or new.p if p else new.p)
            else:
                # element store into an existing array: constants (zeroing) are fine
                new = cur if (d is not None and d.const) else self.join(cur, d)
                # (a mismatch between the stored element and the array is not an alarm: geometric
                # code legitimately halves a user-facing full-span length; the result is unknown)
        elif op in ("+=", "-="):
            new = self.add(it, stmt, cur if cur is not None else CONST, d)
        elif op == "*=":
            new = self.mul(cur, d)
        elif op == "/=":
            new = self.mul(cur, d, True)
        else:
            new = None
        obj.dom[self.name] = new

    def on_aug(self, it, op, cur, rhs, res, st):
        a = cur.dom.get(self.name)
        if a is None and cur.kind == "num" and cur.cfg:
            a = CONST
        b = rhs.dom.get(self.name)
        if b is None and rhs.kind == "num" and rhs.cfg:
            b = CONST
        stmt = getattr(it, "cur_stmt", None)
        two = _is_two(stmt)
        if op in ("*=", "/=") and two and stmt is not None and self.in_sym_arm(it, stmt):
            d = self.double(it, stmt, a, half=(op == "/="))
        elif op in ("+=", "-="):
            d = self.add(it, stmt, a, b)
        elif op == "*=":
            d = self.mul(a, b)
        elif op == "/=":
            d = self.mul(a, b, True)
        else:
            d = None
        if d is not None:
            res.dom[self.name] = d
        else:
            res.dom.pop(self.name, None)

    def on_expr(self, it, node, v, st):
        try:
            d = self.compute(it, node, v, st)
        except Exception:
            d = None
        self.nodeval[id(node)] = d
        if d is not None:
            v.dom[self.name] = d
        else:
            v.dom.pop(self.name, None)

    def compute(self, it, node, v, st):
        if isinstance(node, ast.Constant):
            if isinstance(node.value, (int, float)) and not isinstance(node.value, bool):
                stmt = getattr(it, "cur_stmt", None)
                # symmetry_factor = 2.0 inside the symmetry arm
                if node.value in (2, 2.0) and isinstance(stmt, ast.Assign) and stmt.value is node and self.in_sym_arm(it, stmt):
                    return T(const=True, dbl=True)
                # x = x * 2.0 / x = 2.0 * x inside the symmetry arm: the same doubling written without *=
                if node.value in (2, 2.0) and isinstance(stmt, ast.Assign) and isinstance(stmt.value, ast.BinOp) and isinstance(stmt.value.op, (ast.Mult, ast.Div)) and node in (stmt.value.left, stmt.value.right) and self.in_sym_arm(it, stmt):
                    other = stmt.value.right if node is stmt.value.left else stmt.value.left
                    if len(stmt.targets) == 1 and unparse(other) == unparse(stmt.targets[0]):
                        return T(const=True, dbl=True)
                return CONST
            return None
        if isinstance(node, ast.Name):
            d = v.dom.get(self.name)
            if v.obj is not None and v.obj in st.heap and self.name in st.heap[v.obj].dom:
                # the heap object is authoritative for arrays that are stored into
                d = st.heap[v.obj].dom.get(self.name)
            if d is None and v.cfg and v.kind in ("num", "cfgval") and v.obj is None:
                return CONST
            return d
        if isinstance(node, ast.Attribute):
            if isinstance(node.value, ast.Name) and node.value.id == "self":
                d = v.dom.get(self.name)
                if d is not None:
                    return d
                if v.cfg:
                    return CONST
                return self.val_dom(it, v, st)
            if v.kind == "num" and v.cfg:
                return CONST
            if node.attr in ("T", "real"):
                return self.of(node.value)
            if node.attr in ("shape", "size", "dtype"):
                return CONST
            return None
        if isinstance(node, ast.Subscript):
            if isinstance(v.extra, tuple) and v.extra and v.extra[0] == "cell":
                cell = v.extra[1]
                if cell[0] == "in":
                    return self.input_type(it, cell, v)
                h = st.heap.get(cell)
                return h.dom.get(self.name) if h is not None else None
            if v.kind == "cfgval" and v.cfg:
                key = v.obj[2] if (isinstance(v.obj, tuple) and len(v.obj) == 3) else None
                if key in ROLE_SCALARS:
                    return T(*ROLE_SCALARS[key], False)
                if key == "mesh":
                    return T(0, 0, True)
                return CONST
            base = self.of(node.value)
            if base is None:
                base = self.val_dom(it, v, st)
            if base is None or base.const or base.dbl:
                return base
            p = has_panel(v.shape)
            return T(base.h, base.f, base.p if p is None else p)
        if isinstance(node, ast.UnaryOp):
            return self.of(node.operand)
        if isinstance(node, ast.BinOp):
            a, b = self.of(node.left), self.of(node.right)
            op = type(node.op)
            if op in (ast.Add, ast.Sub):
                return self.add(it, node, a, b)
            if op in (ast.Mult, ast.MatMult):
                return self.mul(a, b)
            if op is ast.Div:
                return self.mul(a, b, True)
            if op is ast.Pow:
                if a is None:
                    return None
                if a.const:
                    return CONST
                if isinstance(node.right, ast.Constant) and isinstance(node.right.value, (int, float)):
                    e = Fraction(node.right.value).limit_denominator(1000)
                    return T(a.h * e, a.f * e, a.p)
                if isinstance(node.right, ast.UnaryOp) and isinstance(node.right.operand, ast.Constant):
                    e = -Fraction(node.right.operand.value).limit_denominator(1000)
                    return T(a.h * e, a.f * e, a.p)
                return None
            return None
        if isinstance(node, ast.IfExp):
            a, b = self.of(node.body), self.of(node.orelse)
            # 2.0 if symmetry else 1.0
            t = unparse(node.test)
            if "symmetry" in t and isinstance(node.body, ast.Constant) and node.body.value in (2, 2.0) and isinstance(node.orelse, ast.Constant) and node.orelse.value in (1, 1.0):
                return T(const=True, dbl=True) if self.symmetric(it) else CONST
            return self.join(a, b)
        if isinstance(node, (ast.Tuple, ast.List)):
            d = CONST
            for e in node.elts:
                x = self.of(e)
                if x is None:
                    return None
                d = self.join(d, x)
                if d is None:
                    return None
            return d
        if isinstance(node, ast.Call):
            fn = unparse(node.func)
            short = fn.split(".")[-1]
            args = [a.value if isinstance(a, ast.Starred) else a for a in node.args]
            ads = [self.of(a) for a in args]
            mod = it.frames[-1].func.mod
            root = node.func
            while isinstance(root, ast.Attribute):
                root = root.value
            is_module_fn = isinstance(node.func, ast.Attribute) and isinstance(root, ast.Name) and root.id in mod.imports and root.id not in st.env
            is_method = isinstance(node.func, ast.Attribute) and not is_module_fn
            if not is_module_fn and not is_method and v.dom.get(self.name) is not None:
                return v.dom[self.name]  # inlined helper
            res_p = has_panel(v.shape) if v.shape is not None else (False if v.kind == "num" else None)
            if is_method:
                base = self.of(node.func.value)
                if short in ("reshape", "flatten", "ravel", "copy", "squeeze", "astype", "transpose"):
                    return base
                if short in ("sum", "mean"):
                    r = self.reduce(it, base, res_p if res_p is not None else (False if not node.args and not node.keywords else None))
                    return r
                if short == "dot":
                    b = ads[0] if ads else None
                    m = self.mul(base, b)
                    if m is None or m.const:
                        return m
                    return self.reduce(it, m, res_p)
                if short in ("max", "min"):
                    if base is None:
                        return None
                    return T(base.h, base.f, bool(res_p)) if not base.const else base
                return None
            if short in ("zeros", "ones", "empty", "eye", "arange", "linspace", "zeros_like", "ones_like", "full", "identity", "array") and short != "array":
                return CONST
            if short == "array":
                return ads[0] if ads else CONST
            if short in ("sum", "mean", "trapz"):
                a = ads[0] if ads else None
                if short == "mean":
                    if a is None or a.const:
                        return a
                    return T(a.h, a.f, bool(res_p))
                return self.reduce(it, a, res_p if res_p is not None else (False if len(args) == 1 and not [k for k in node.keywords if k.arg == "axis"] else None))
            if short in ("max", "min", "amax", "amin", "abs", "absolute", "real", "copy", "squeeze", "atleast_1d", "atleast_2d", "tile", "repeat", "flip", "transpose", "reshape", "ravel", "float", "asarray", "negative", "diff"):
                a = ads[0] if ads else None
                if a is None or a.const or a.dbl:
                    return a
                return T(a.h, a.f, a.p if res_p is None else bool(res_p))
            if short == "sqrt":
                a = ads[0] if ads else None
                if a is None or a.const:
                    return a
                return T(a.h / 2, a.f / 2, a.p)
            if short in ("cross", "multiply", "outer"):
                return self.mul(ads[0], ads[1]) if len(ads) > 1 else None
            if short in ("norm",):
                a = ads[0] if ads else None
                if a is None or a.const:
                    return a
                return T(a.h, a.f, a.p if res_p is None else bool(res_p))
            if short in ("concatenate", "hstack", "vstack", "append", "stack"):
                return ads[0] if ads else None
            if short in ("dot", "matmul", "inner"):
                m = self.mul(ads[0], ads[1]) if len(ads) > 1 else None
                if m is None or m.const:
                    return m
                return self.reduce(it, m, res_p)
            if short == "einsum":
                ops = ads[1:]
                m = CONST
                for o in ops:
                    m = self.mul(m, o)
                    if m is None:
                        return None
                if m.const:
                    return m
                inp = any(o is not None and not o.const and o.p for o in ops)
                if inp and res_p is False:
                    return self.reduce(it, T(m.h, m.f, True), False)
                return T(m.h, m.f, bool(res_p) if res_p is not None else m.p)
            if short in NONLINEAR:
                a = ads[0] if ads else None
                if a is None:
                    return None
                if a.const or (a.h == 0 and a.f == 0):
                    return T(0, 0, a.p) if not a.const else CONST
                return None
            if short in ("divide",):
                return self.mul(ads[0], ads[1], True) if len(ads) > 1 else None
            if short in ("where", "interp"):
                return None
            return None
        return None


def _is_two(stmt):
    return isinstance(stmt, ast.AugAssign) and isinstance(stmt.value, ast.Constant) and stmt.value.value in (2, 2.0)


register_domain(Ext())
