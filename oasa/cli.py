"""CLI: python -m oasa.cli <ID> [--tier quick|thorough] [--explain]"""
import argparse
import importlib
import os
import sys
import traceback

from .load import AnalysisError, get_repo
from .report import Check


def selfcheck():
    import sympy

    from . import absint, model, npsem, report  # noqa: F401

    repo = get_repo(os.environ.get("OAS_REPO", "/repo"))
    print("selfcheck ok: sympy %s, %d modules, %d components, %d groups" % (sympy.__version__, len(repo.modules), len(repo.components()), len(repo.groups())))
    return 0


def main(argv=None):
    argv = sys.argv[1:] if argv is None else argv
    if argv and argv[0] == "--selfcheck":
        return selfcheck()
    ap = argparse.ArgumentParser()
    ap.add_argument("pid")
    ap.add_argument("--tier", default=os.environ.get("VERIF_TIER", "quick"), choices=["quick", "thorough"])
    ap.add_argument("--repo", default=os.environ.get("OAS_REPO", "/repo"))
    ap.add_argument("--verbose", "-v", action="store_true")
    a = ap.parse_args(argv)
    pid = a.pid.upper()
    try:
        seed = int(os.environ.get("VERIF_SEED", "0"))
    except ValueError:
        seed = 0
    chk = Check(pid, a.tier, seed)
    try:
        mod = importlib.import_module("oasa.rules.%s" % pid.lower())
    except Exception as e:  # includes errors of the checker's own code: never a verdict
        print("ANALYSIS-ERROR property=%s rule module not loadable: %s: %s" % (pid, type(e).__name__, e))
        return 2
    try:
        repo = get_repo(a.repo)
        mod.run(chk, repo, a.tier)
    except AnalysisError as e:
        chk.error(str(e))
    except Exception as e:  # a crash of the analysis is never a verdict
        tb = traceback.format_exc(limit=6)
        chk.error("internal error: %s: %s | %s" % (type(e).__name__, e, tb.replace("\n", " / ")))
    rc = chk.finish()
    if a.verbose:
        for i in chk.instances:
            if i.status != "ok":
                print("  [%s] %s %s %s %s" % (i.status, i.where, i.rule, i.key, i.detail))
    return rc


if __name__ == "__main__":
    sys.exit(main())
