"""Abstract values, heap objects and lattice joins for the E3 interpreter."""
import sympy as sp

_EMPTY = frozenset()


class Val:
    """Immutable abstract value.

    kind : 'str' | 'num' | 'arr' | 'bool' | 'none' | 'cfgdict' | 'cfglist' |
           'options' | 'vec' | 'tuple' | 'list' | 'dict' | 'func' | 'class' |
           'module' | 'self' | 'slice' | 'unknown' | 'obj'
    tmpl : template string for strings ("<surface.name>_def_mesh")
    sym  : sympy expression for config-derived numbers (mesh sizes, literals)
    shape: tuple of sympy expressions (or None per axis) for arrays
    obj  : heap object id the value is (a view of)
    view : 'whole' | 'part' | 'reshape' (how the value relates to obj)
    items: element values for tuple / list / dict literals
    dep  : frozenset of "in:<tmpl>", "out:<tmpl>" sources that may flow in
    cfg  : True if derived only from configuration / literals
    cx   : canonical configuration expression text (for atoms / placeholders)
    dom  : dict of plug-in domain values
    """

    __slots__ = ("kind", "tmpl", "sym", "shape", "obj", "view", "items", "dep", "cfg", "cx", "dom", "extra", "mayc")

    def __init__(
        self,
        kind="unknown",
        tmpl=None,
        sym=None,
        shape=None,
        obj=None,
        view=None,
        items=None,
        dep=_EMPTY,
        cfg=False,
        cx=None,
        dom=None,
        extra=None,
        mayc=None,
    ):
        self.kind = kind
        self.tmpl = tmpl
        self.sym = sym
        self.shape = shape
        self.obj = obj
        self.view = view
        self.items = items
        self.dep = dep if isinstance(dep, frozenset) else frozenset(dep)
        self.cfg = cfg
        self.cx = cx
        self.dom = dom or {}
        self.extra = extra
        # user-owned (configuration) arrays this value may be a view of
        if mayc is None:
            mayc = frozenset([obj]) if (isinstance(obj, tuple) and obj and obj[0] == "cfg") else _EMPTY
        self.mayc = mayc

    def with_(self, **kw):
        d = {s: getattr(self, s) for s in self.__slots__}
        d["dom"] = dict(self.dom)  # plug-in domain values are per value, never shared
        d.update(kw)
        return Val(**d)

    def __repr__(self):
        bits = [self.kind]
        if self.tmpl is not None:
            bits.append("tmpl=%r" % self.tmpl)
        if self.sym is not None:
            bits.append("sym=%s" % self.sym)
        if self.shape is not None:
            bits.append("shape=%s" % (self.shape,))
        if self.obj is not None:
            bits.append("obj=%s/%s" % (self.obj, self.view))
        if self.dep:
            bits.append("dep=%s" % sorted(self.dep))
        if self.cfg:
            bits.append("cfg")
        if self.cx:
            bits.append("cx=%s" % self.cx)
        if self.items is not None:
            bits.append("items=%d" % len(self.items))
        return "<" + " ".join(bits) + ">"


UNKNOWN = Val("unknown")
NONE = Val("none", cfg=True, cx="None")


def num(sym=None, cfg=True, cx=None, dep=_EMPTY):
    if sym is not None and not isinstance(sym, sp.Basic):
        sym = sp.sympify(sym)
    if cx is None and cfg and sym is not None:
        cx = str(sym)
    return Val("num", sym=sym, cfg=cfg, cx=cx, dep=dep)


def strv(t):
    return Val("str", tmpl=t, cfg=True, cx=repr(t))


def boolv(b):
    return Val("bool", sym=sp.true if b else sp.false, cfg=True, cx=repr(bool(b)))


def join_shape(a, b):
    if a is None or b is None or len(a) != len(b):
        return None
    out = []
    for x, y in zip(a, b):
        if x is not None and y is not None and sp.simplify(x - y) == 0:
            out.append(x)
        else:
            out.append(None)
    return tuple(out)


def join(a, b):
    """Least upper bound of two abstract values."""
    if a is b:
        return a
    if a is None:
        return b
    if b is None:
        return a
    dep = a.dep | b.dep
    cfg = a.cfg and b.cfg
    mayc = a.mayc | b.mayc
    if a.kind != b.kind:
        # numeric scalar vs array joins stay numeric-ish arrays
        if {a.kind, b.kind} <= {"num", "arr"}:
            obj = a.obj if a.obj == b.obj else None
            return Val("arr", dep=dep, cfg=cfg, obj=obj, view=a.view if obj else None, dom=join_dom(a.dom, b.dom), mayc=mayc)
        return Val("unknown", dep=dep, cfg=cfg, dom=join_dom(a.dom, b.dom), mayc=mayc)
    tmpl = a.tmpl if a.tmpl == b.tmpl else None
    sym = a.sym if (a.sym is not None and b.sym is not None and _sym_eq(a.sym, b.sym)) else None
    shape = join_shape(a.shape, b.shape)
    obj = a.obj if a.obj == b.obj else None
    view = a.view if (obj is not None and a.view == b.view) else ("part" if obj is not None else None)
    cx = a.cx if a.cx == b.cx else None
    items = None
    if a.items is not None and b.items is not None and type(a.items) is type(b.items):
        if isinstance(a.items, (list, tuple)) and len(a.items) == len(b.items):
            items = type(a.items)(join(x, y) for x, y in zip(a.items, b.items))
        elif isinstance(a.items, dict) and set(a.items) == set(b.items):
            items = {k: join(a.items[k], b.items[k]) for k in a.items}
    extra = a.extra if a.extra == b.extra else None
    return Val(
        a.kind,
        tmpl=tmpl,
        sym=sym,
        shape=shape,
        obj=obj,
        view=view,
        items=items,
        dep=dep,
        cfg=cfg,
        cx=cx,
        dom=join_dom(a.dom, b.dom),
        extra=extra,
        mayc=mayc,
    )


def _sym_eq(x, y):
    try:
        return x == y or sp.simplify(x - y) == 0
    except Exception:
        return False


_DOMAINS = {}


def register_domain(d):
    _DOMAINS[d.name] = d


def join_dom(a, b):
    if not a and not b:
        return {}
    out = {}
    for k in set(a) | set(b):
        d = _DOMAINS.get(k)
        if d is None:
            continue
        if k in a and k in b:
            out[k] = d.join(a[k], b[k])
        else:
            # a missing entry is "nothing known yet on that path" (bottom): keep the other side
            out[k] = a[k] if k in a else b[k]
    return out


class Obj:
    """Heap object (array storage)."""

    __slots__ = ("oid", "dep", "shape", "cfg", "alloc", "dom", "stored")

    def __init__(self, oid, dep=_EMPTY, shape=None, cfg=False, alloc=None):
        self.oid = oid
        self.dep = set(dep)
        self.shape = shape
        self.cfg = cfg
        self.alloc = alloc  # description of the allocation (callee name, dtype info)
        self.dom = {}
        self.stored = False

    def copy(self):
        o = Obj(self.oid, self.dep, self.shape, self.cfg, self.alloc)
        o.dom = dict(self.dom)
        o.stored = self.stored
        return o

    def join(self, other):
        self.dep |= other.dep
        self.shape = join_shape(self.shape, other.shape)
        self.cfg = self.cfg and other.cfg
        self.dom = join_dom(self.dom, other.dom)
        self.stored = self.stored or other.stored


class _MetaDomain:
    """Trivial domain for per-value metadata that must survive views / joins
    (IDXR: the integer range an index array was generated from)."""

    def __init__(self, name):
        self.name = name

    def bottom(self):
        return None

    def join(self, a, b):
        return a if a == b else None


register_domain(_MetaDomain("IDXR"))
