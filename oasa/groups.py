"""E2 group model: instantiation graph, connections and solver settings of
every om.Group, extracted from the interpreter's events (per option
valuation)."""
from .absint import Interp, enumerate_runs
from .load import ClassInfo

PUBLIC_GROUPS = [
    "AeroPoint", "AerostructPoint", "AerostructGeometry", "SpatialBeamAlone", "Geometry", "MultiSecGeometry",
    "AtmosGroup", "AeroSolverGroup", "AeroFuncsGroup", "AeroCouplingGroup",
]
STANDALONE_API = {
    "MonotonicConstraint": "documented stand-alone constraint component",
    "MultiCD": "documented multipoint helper component",
    "WingboxFuelVolDelta": "documented stand-alone component (added by user scripts for the fuel-volume constraint)",
}


def _hook_build_sections(it, n, tgt, args, kwargs, st):
    from .absval import Val

    it.emit("call", n, st, callee=tgt, args=args, kwargs=kwargs, inlined=False)
    return Val("cfglist", cfg=True, cx="sections", extra="sections")


def _hook_opaque(it, n, tgt, args, kwargs, st):
    from .absval import Val

    it.emit("call", n, st, callee=tgt, args=args, kwargs=kwargs, inlined=False)
    return Val("unknown", cfg=True)


GROUP_HOOKS = {
    "call:build_sections": _hook_build_sections,
    "call:check_surface_dict_keys": _hook_opaque,
    "call:generate_mesh": _hook_opaque,
}


class Subsys:
    def __init__(self, owner, name, cls, kwargs, ctor_kwargs, ev):
        self.owner = owner
        self.name = name
        self.cls = cls  # ClassInfo | str (external class) | None
        self.kwargs = kwargs
        self.ctor_kwargs = ctor_kwargs
        self.ev = ev

    @property
    def cls_name(self):
        if isinstance(self.cls, ClassInfo):
            return self.cls.name
        return str(self.cls)

    def __repr__(self):
        return "<Subsys %s.%s : %s>" % (self.owner, self.name, self.cls_name)


class GroupRun:
    def __init__(self, run):
        self.run = run
        self.sigma = run.sigma
        self.subsystems = []
        self.connects = []  # (owner, src, tgt, ev)
        self.solvers = {}  # (owner, kind) -> (cls name, kwargs, ev)
        self.solver_opts = {}  # (owner, kind, key) -> (Val, ev)
        self.group_opts = {}
        self.raises = [e for e in run.events if e.kind == "raise"]
        self.calls = [e for e in run.events if e.kind == "call"]
        seen = set()
        for e in run.events:
            tagkey = (e.kind, e.lineno, tuple(l.tag.replace("generic2", "generic") for l in e.loops))
            if e.kind in ("subsys", "instance_call", "connect") and tagkey in seen:
                continue
            seen.add(tagkey)
            if e.kind == "subsys":
                self._add_sub("self", e.name, e.sub, e.kwargs, e)
            elif e.kind == "instance_call":
                owner = e.base_src
                if e.method == "add_subsystem":
                    nm = e.args[0] if e.args else e.kwargs.get("name")
                    sub = e.args[1] if len(e.args) > 1 else e.kwargs.get("subsys")
                    self._add_sub(owner, _tm(nm), sub, e.kwargs, e)
                elif e.method == "connect":
                    a = e.args[0] if e.args else e.kwargs.get("src_name")
                    b = e.args[1] if len(e.args) > 1 else e.kwargs.get("tgt_name")
                    for t in _tgts(b):
                        self.connects.append((owner, _tm(a), t, e))
            elif e.kind == "connect":
                tg = e.tgt if isinstance(e.tgt, list) else [e.tgt]
                for t in tg:
                    self.connects.append(("self", e.src, t, e))
            elif e.kind in ("attr_store", "objattr_store"):
                attr = e.attr
                if attr in ("linear_solver", "nonlinear_solver"):
                    owner = "self" if e.kind == "attr_store" else e.base_src
                    v = e.val
                    if v is not None and v.kind == "instance":
                        self.solvers[(owner, attr)] = (str(v.extra[1]).split(".")[-1], v.extra[2], e)
            elif e.kind == "store" and e.obj is None:
                t = e.target
                for kind in ("linear_solver", "nonlinear_solver"):
                    mark = "." + kind + ".options["
                    if mark in t:
                        owner = t.split(mark)[0]
                        key = t.split(mark)[1].rstrip("]").strip("'\"")
                        self.solver_opts[(owner, kind, key)] = (e.val, e)
                if ".options[" in t and ".linear_solver" not in t and ".nonlinear_solver" not in t:
                    owner = t.split(".options[")[0]
                    key = t.split(".options[")[1].rstrip("]").strip("'\"")
                    self.group_opts[(owner, key)] = (e.val, e)

    def _add_sub(self, owner, name, sub, kwargs, ev):
        cls = None
        ck = {}
        if sub is not None and sub.kind == "instance":
            cls = sub.extra[1]
            ck = sub.extra[2]
        self.subsystems.append(Subsys(owner, name, cls, kwargs, ck, ev))

    def subs_of(self, owner):
        return [s for s in self.subsystems if s.owner == owner]

    def owners(self):
        return sorted({s.owner for s in self.subsystems} | {o for o, *_ in self.connects})


def _tm(v):
    if v is None:
        return None
    if v.kind == "str":
        return v.tmpl
    return None


def _tgts(v):
    if v is None:
        return [None]
    if v.kind in ("list", "tuple") and v.items is not None:
        return [_tm(x) for x in v.items]
    return [_tm(v)]


class GroupModel:
    def __init__(self, repo, cls):
        self.repo = repo
        self.cls = cls
        self.runs = []
        self.rejected = []
        f = cls.methods.get("setup")
        if f is not None:
            rs = enumerate_runs(repo, cls, f, lambda s: Interp(repo, cls, s, hooks=GROUP_HOOKS), join_fallback=lambda s: Interp(repo, cls, s, hooks=GROUP_HOOKS, join_atoms=True))
            for r in rs:
                if r.final is None:
                    self.rejected.append(r)
                else:
                    self.runs.append(GroupRun(r))
        self.all_runs = rs if f is not None else []


def runs_with_policy(repo, cls, policy, method="setup", max_runs=64, domains=()):
    """Valuations of a group's setup in which ``policy(atom)`` fixes an atom
    (True / False) or leaves it to be enumerated (None)."""
    from .absint import NeedAtom, Run

    f = cls.methods.get(method)
    if f is None:
        return []
    work, out, n = [{}], [], 0
    cmp_info = {}
    while work:
        sigma = work.pop()
        n += 1
        if n > max_runs * 6:
            raise AnalysisError("valuation explosion in %s (policy)" % f.qual)
        it = Interp(repo, cls, sigma, hooks=GROUP_HOOKS)
        it.cmp_info.update(cmp_info)
        try:
            res = it.run_entry(f, None)
        except NeedAtom as e:
            cmp_info.update(it.cmp_info)
            p = policy(e.atom)
            if p is None:
                work.append(dict(sigma, **{e.atom: False}))
                work.append(dict(sigma, **{e.atom: True}))
            else:
                work.append(dict(sigma, **{e.atom: bool(p)}))
            continue
        r = Run(f, sigma, it, res)
        if r.final is not None:
            out.append(GroupRun(r))
    return out


_CACHE = {}


def group_model(repo, cls):
    k = (id(repo), cls.key)
    if k not in _CACHE:
        _CACHE[k] = GroupModel(repo, cls)
    return _CACHE[k]


def all_group_models(repo, chk=None):
    out = []
    for c in repo.groups():
        gm = group_model(repo, c)
        out.append(gm)
        if chk is not None:
            chk.analysed_method("%s.setup" % c.name)
            chk.valuations += len(gm.all_runs)
    return out


def instantiated_classes(repo, roots=None):
    """Names of repository classes reachable from the public groups (or from
    ``roots``) through add_subsystem (any valuation)."""
    byname = {}
    for c in repo.groups():
        byname.setdefault(c.name, []).append(c)
    reach = set()
    work = [c for n in (roots or PUBLIC_GROUPS) for c in byname.get(n, [])]
    seen = set()
    while work:
        c = work.pop()
        if c.key in seen:
            continue
        seen.add(c.key)
        reach.add(c.name)
        gm = group_model(repo, c)
        for gr in gm.runs:
            for s in gr.subsystems:
                if isinstance(s.cls, ClassInfo):
                    reach.add(s.cls.name)
                    if s.cls.kind == "group":
                        work.append(s.cls)
    return reach
