"""Transfer functions for calls: numpy / scipy / builtins / OpenMDAO framework
methods / repository helpers (inlined).  Shapes are sympy polynomials in the
mesh-size symbols where they can be inferred, ``None`` otherwise."""
import ast

import sympy as sp

from .absval import NONE, UNKNOWN, Obj, Val, boolv, join, num, strv
from .load import FuncInfo, unparse

ELEMENTWISE = {
    "sqrt", "sin", "cos", "tan", "arctan", "arccos", "arcsin", "exp", "log", "log10", "abs", "absolute", "fabs",
    "real", "imag", "conj", "negative", "square", "sign", "floor", "ceil", "deg2rad", "rad2deg", "radians", "degrees",
    "tanh", "sinh", "cosh", "arctan2", "power", "maximum", "minimum", "divide", "multiply", "add", "subtract", "isnan", "isinf",
    "nan_to_num", "clip", "round", "around", "float64", "complex128", "int64", "copy", "ascontiguousarray", "cbrt",
}
REDUCTIONS = {"sum", "max", "min", "mean", "prod", "amax", "amin", "nanmax", "nanmin", "all", "any", "count_nonzero", "std", "trapz", "median", "argmax", "argmin"}
ALLOC = {"zeros", "ones", "empty", "full"}
ALLOC_LIKE = {"zeros_like", "ones_like", "empty_like", "full_like"}
VIEW_FUNCS = {"reshape", "transpose", "squeeze", "atleast_1d", "atleast_2d", "atleast_3d", "ravel", "asarray", "flip", "flipud", "fliplr", "broadcast_to", "swapaxes", "moveaxis", "real", "imag", "asanyarray", "expand_dims"}
VIEW_METHODS = {"reshape", "transpose", "squeeze", "ravel", "swapaxes", "view"}
COPY_METHODS = {"copy", "flatten", "astype", "tolist", "conj", "conjugate", "round", "clip", "toarray", "todense", "tocsc", "tocsr", "tocoo"}
INPLACE_METHODS = {"fill", "sort", "resize", "put", "itemset", "setfield", "partition", "setflags", "byteswap"}
LIST_MUTATORS = {"append", "extend", "insert", "pop", "remove", "clear", "update", "setdefault", "popitem", "sort", "reverse", "add", "discard"}

FRAMEWORK_METHODS = {
    "add_input", "add_output", "declare_partials", "add_subsystem", "connect", "set_check_partial_options",
    "add_discrete_input", "add_discrete_output", "promotes", "add_design_var", "add_constraint", "add_objective",
    "set_input_defaults", "declare_coloring", "add_residual", "set_order",
}


def prod(shape):
    if shape is None or any(x is None for x in shape):
        return None
    t = sp.Integer(1)
    for x in shape:
        t = t * x
    return sp.expand(t)


def size_of(v):
    if v.kind == "num" and v.shape is None:
        return sp.Integer(1)
    if v.shape is not None:
        return prod(v.shape)
    if v.kind in ("list", "tuple") and v.items is not None:
        tot = sp.Integer(0)
        for x in v.items:
            s = size_of(x)
            if s is None:
                return None
            tot += s
        return tot
    return None


def shape_from_val(v):
    """Interpret a value used as a shape argument."""
    if v.kind == "num":
        return (v.sym,) if v.sym is not None else (None,)
    if v.kind in ("tuple", "list") and v.items is not None:
        out = []
        for x in v.items:
            if x.kind == "num" and x.sym is not None:
                out.append(x.sym)
            else:
                out.append(None)
        return tuple(out)
    if v.kind == "tuple" and isinstance(v.extra, tuple) and v.extra and v.extra[0] == "shape_of":
        return v.extra[1]
    return None


def deps(args, kwargs=None, skip=("dtype",)):
    d = frozenset()
    c = True
    for a in args:
        d |= a.dep
        c = c and a.cfg
    for k, a in (kwargs or {}).items():
        if k in skip:
            continue
        d |= a.dep
        c = c and a.cfg
    return d, c


def heap_dep(v, st):
    d = v.dep
    if v.obj is not None and v.obj in st.heap:
        d = d | frozenset(st.heap[v.obj].dep)
    return d


def fresh(it, n, st, dep, cfg, shape=None, alloc=None, kind="arr", extra=None):
    fr = it.frames[-1]
    oid = ("site", fr.func.qual, n.lineno, n.col_offset)
    o = Obj(oid, dep=dep, shape=shape, cfg=cfg, alloc=alloc)
    st.heap[oid] = o
    return Val(kind, dep=dep, cfg=cfg, shape=shape, obj=oid, view="whole", extra=extra or ("alloc", alloc))


def call(it, n, f, args, kwargs, st):
    k = f.kind
    if k == "func":
        tgt = f.extra
        if isinstance(tgt, FuncInfo):
            hk = it.hooks.get("call:" + tgt.name)
            if hk:
                r = hk(it, n, tgt, args, kwargs, st)
                if r is not None:
                    return r
            return it.inline(tgt, n, args, kwargs, st)
        if isinstance(tgt, tuple) and tgt[0] == "cfgdict_method":
            return cfgdict_method(it, n, tgt[1], tgt[2], args, kwargs, st)
        if isinstance(tgt, tuple) and tgt[0] == "options_method":
            return options_method(it, n, tgt[1], tgt[2], args, kwargs, st)
        if isinstance(tgt, tuple) and tgt[0] == "lambda":
            d, c = deps(args, kwargs)
            return Val("unknown", dep=d, cfg=c)
    if k == "fw":
        return framework_call(it, n, f.extra, args, kwargs, st)
    if k == "class":
        d, c = deps(args, kwargs)
        it.emit("construct", n, st, cls=f.extra, args=args, kwargs=kwargs, src=unparse(n))
        return Val("instance", extra=("instance", f.extra, kwargs, args), cfg=True, dep=d)
    if k == "ext":
        return ext_call(it, n, f.extra, args, kwargs, st)
    if k == "boundmethod":
        base, attr = f.extra
        return method_call(it, n, base, attr, args, kwargs, st)
    d, c = deps(args, kwargs)
    it.emit("call", n, st, callee=None, name=unparse(n.func), args=args, kwargs=kwargs, inlined=False)
    return Val("unknown", dep=d | f.dep, cfg=False)


# ---------------------------------------------------------------------- config
def cfgdict_method(it, n, b, attr, args, kwargs, st):
    if attr == "get" and args:
        k = args[0]
        key = k.tmpl if (k.kind == "str" and k.tmpl is not None) else None
        dflt = args[1] if len(args) > 1 else NONE
        if key is None:
            return Val("cfgval", cfg=True)
        it.emit("cfg_read", n, st, src=b.cx, key=key, get=True)
        cx = "%s.get(%r, %s)" % (b.cx, key, dflt.cx if dflt.cx else "?")
        if key == "mesh":
            return it.cfg_value(b, key, n, st)
        return Val("cfgval", cfg=True, cx=cx, obj=("cfg", b.cx, key), view="whole", extra=("get", key, dflt))
    if attr in ("keys", "items", "values"):
        return Val("cfgkeys" if attr == "keys" else "unknown", cfg=True, cx=b.cx if attr == "keys" else None, extra=b)
    if attr == "copy":
        return b
    if attr in ("update", "pop", "setdefault", "clear", "__setitem__"):
        it.emit("cfg_mutation", n, st, src=b.cx, method=attr, args=args)
        return Val("cfgval", cfg=True)
    return Val("cfgval", cfg=True)


def options_method(it, n, b, attr, args, kwargs, st):
    if attr == "declare":
        name = args[0].tmpl if args and args[0].kind == "str" else None
        it.emit("optdecl", n, st, name=name, kwargs=kwargs, default=kwargs.get("default"), src=unparse(n))
        return NONE
    if attr == "update":
        return NONE
    return Val("cfgval", cfg=True)


# ---------------------------------------------------------------------- framework
def framework_call(it, n, name, args, kwargs, st):
    if name in ("add_input", "add_output", "add_discrete_input", "add_discrete_output"):
        nm = args[0] if args else kwargs.get("name")
        val = kwargs.get("val", args[1] if len(args) > 1 else None)
        shp = kwargs.get("shape")
        shape = None
        if shp is not None:
            shape = shape_from_val(shp)
        elif val is not None:
            if val.kind == "num" and val.shape is None:
                shape = (sp.Integer(1),)
            elif val.shape is not None:
                shape = val.shape
            elif val.kind in ("list", "tuple") and val.items is not None:
                shape = (sp.Integer(len(val.items)),)
        else:
            shape = (sp.Integer(1),)
        units = kwargs.get("units")
        it.emit(
            "io",
            n,
            st,
            role="input" if "input" in name else "output",
            discrete="discrete" in name,
            name=it.to_tmpl(nm) if nm is not None else None,
            shape=shape,
            units=units.tmpl if (units is not None and units.kind == "str") else None,
            val=val,
            kwargs=kwargs,
            src=unparse(n),
        )
        return NONE
    if name == "declare_partials":
        of = args[0] if args else kwargs.get("of")
        wrt = args[1] if len(args) > 1 else kwargs.get("wrt")

        def names(v):
            if v is None:
                return None
            if v.kind in ("list", "tuple") and v.items is not None:
                return [it.to_tmpl(x) for x in v.items]
            if v.kind in ("list", "tuple"):
                return None
            return [it.to_tmpl(v)]

        method = kwargs.get("method")
        it.emit(
            "decl",
            n,
            st,
            of=names(of),
            wrt=names(wrt),
            rows=kwargs.get("rows"),
            cols=kwargs.get("cols"),
            val=kwargs.get("val"),
            method=method.tmpl if (method is not None and method.kind == "str") else (None if method is None else "?"),
            dependent=kwargs.get("dependent"),
            src=unparse(n)[:200],
        )
        return NONE
    if name == "add_subsystem":
        nm = args[0] if args else kwargs.get("name")
        sub = args[1] if len(args) > 1 else kwargs.get("subsys")
        it.emit("subsys", n, st, name=nm.tmpl if (nm is not None and nm.kind == "str") else None, sub=sub, kwargs=kwargs, src=unparse(n)[:300])
        return sub if sub is not None else UNKNOWN
    if name == "connect":
        a = args[0] if args else kwargs.get("src_name")
        b = args[1] if len(args) > 1 else kwargs.get("tgt_name")
        it.emit("connect", n, st, src=a.tmpl if (a is not None and a.kind == "str") else None, tgt=(b.tmpl if b.kind == "str" else [x.tmpl for x in (b.items or [])] if b is not None and b.kind in ("list", "tuple") else None) if b is not None else None, kwargs=kwargs, text=unparse(n)[:300])
        return NONE
    it.emit("fwcall", n, st, name=name, args=args, kwargs=kwargs, src=unparse(n)[:200])
    return NONE


# ---------------------------------------------------------------------- methods
def method_call(it, n, b, attr, args, kwargs, st):
    d, c = deps(args, kwargs)
    bdep = heap_dep(b, st)
    if b.kind == "str":
        if attr == "format":
            t = b.tmpl
            parts = [it.to_tmpl(a) for a in args]
            if t is not None and all(p is not None for p in parts):
                try:
                    return Val("str", tmpl=t.format(*parts), cfg=True, cx=repr(t.format(*parts)))
                except Exception:
                    pass
            return Val("str", dep=d | b.dep, cfg=c and b.cfg)
        if attr in ("split", "rsplit"):
            if b.tmpl is not None and args and args[0].kind == "str" and args[0].tmpl and "<" not in args[0].tmpl:
                parts = b.tmpl.split(args[0].tmpl)
                return Val("list", items=[strv(p) for p in parts], cfg=True)
            return Val("list", dep=b.dep, cfg=b.cfg)
        if attr == "join":
            return Val("str", dep=d | b.dep, cfg=c and b.cfg)
        if attr in ("startswith", "endswith"):
            return Val("bool", dep=b.dep | d, cfg=b.cfg and c, cx=("%s.%s(%s)" % (b.cx, attr, args[0].cx)) if (b.cx and args and args[0].cx) else None)
        return Val("str", dep=d | b.dep, cfg=c and b.cfg)
    if b.kind in ("list", "dict", "set") and attr in LIST_MUTATORS:
        it.emit("container_mutation", n, st, base=b, method=attr, args=args, src=unparse(n.func.value))
        base = n.func.value
        is_set = b.kind == "list" and isinstance(b.extra, tuple) and len(b.extra) > 1 and b.extra[0] == "from" and b.extra[1] in ("set", "frozenset")
        if b.kind == "list" and (attr in ("append", "extend") or (is_set and attr in ("add", "update"))) and args:
            items = None
            if b.items is not None and attr in ("append", "add"):
                items = list(b.items) + [args[0]]
            elif b.items is not None and attr in ("extend", "update") and args[0].items is not None:
                items = list(b.items) + list(args[0].items)
            if is_set and items is not None:
                if all(x.kind == "str" and x.tmpl is not None for x in items):
                    seen, ded = set(), []
                    for x in items:
                        if x.tmpl not in seen:
                            seen.add(x.tmpl)
                            ded.append(x)
                    items = ded
                else:
                    items = None
            from .absval import join_dom

            nd = dict(b.dom)
            for a_ in args:
                nd = join_dom(nd, a_.dom)
            nv = Val("list", items=items, dep=b.dep | d | st.ctrl, cfg=b.cfg and c and not st.ctrl, obj=b.obj, dom=nd, extra=b.extra if is_set else None)
            it._rebind(base, nv, st)
        elif b.kind == "dict" and attr in ("update",) and args and args[0].kind == "dict" and b.items is not None and args[0].items is not None:
            items = dict(b.items)
            items.update(args[0].items)
            it._rebind(base, b.with_(items=items, dep=b.dep | d, cfg=b.cfg and c), st)
        else:
            nv = b.with_(dep=b.dep | d | st.ctrl, cfg=b.cfg and c, items=None)
            it._rebind(base, nv, st)
        return Val("unknown", dep=b.dep | d, cfg=b.cfg and c)
    if b.kind == "dict" and attr in ("keys", "values", "items", "get", "copy"):
        if attr == "get" and args and args[0].kind == "str" and b.items is not None:
            if args[0].tmpl in b.items:
                return b.items[args[0].tmpl]
            return args[1] if len(args) > 1 else NONE
        if attr == "copy":
            return b
        return Val("list", dep=b.dep, cfg=b.cfg, extra=("dictview", attr, b))
    if b.kind == "cfgkeys":
        return Val("unknown", cfg=True)
    if b.kind == "instance":
        # method on a constructed subsystem / solver object
        it.emit("instance_call", n, st, base=b, base_src=unparse(n.func.value), method=attr, args=args, kwargs=kwargs, src=unparse(n)[:200])
        return Val("unknown", cfg=True)
    # array methods
    if attr in VIEW_METHODS:
        shape = None
        if attr == "reshape":
            sv = args[0] if len(args) == 1 else Val("tuple", items=tuple(args))
            shape = infer_reshape(shape_from_val(sv), b.shape)
        elif attr == "ravel":
            p = prod(b.shape)
            shape = (p,) if p is not None else None
        elif attr == "squeeze" and b.shape is not None:
            shape = tuple(x for x in b.shape if not (x is not None and x == 1))
        full = shape is not None and b.shape is not None and b.view == "whole"
        return Val("arr", dep=bdep, cfg=b.cfg, shape=shape, obj=b.obj, view=("reshape" if b.obj is not None else None), dom=dict(b.dom), extra=("reshaped", b), mayc=b.mayc)
    if attr in COPY_METHODS:
        shape = b.shape
        if attr == "flatten":
            p = prod(b.shape)
            shape = (p,) if p is not None else None
        if attr in ("tocsc", "tocsr", "tocoo", "toarray", "todense"):
            shape = None
        r = fresh(it, n, st, bdep | d, b.cfg and c, shape, alloc=attr)
        if attr in ("copy", "flatten", "astype") and b.dom.get("IDXR") is not None:
            r.dom["IDXR"] = b.dom["IDXR"]
        return r
    if attr in INPLACE_METHODS:
        if b.obj is not None:
            o = st.heap.get(b.obj) or st.heap.setdefault(b.obj, Obj(b.obj))
            if attr == "fill" and b.view == "whole":
                o.dep = set(d | st.ctrl)
            else:
                o.dep |= d | st.ctrl
            o.stored = True
        it.emit("store", n, st, obj=b.obj, cell=b.obj if (isinstance(b.obj, tuple) and b.obj[0] in ("in", "out", "res", "partials", "self", "cfg", "global", "classattr")) else None, op="=" if attr == "fill" else "inplace:" + attr, val=args[0] if args else UNKNOWN, dep=d | st.ctrl, region="whole" if b.view == "whole" else None, whole=(b.view == "whole" and attr == "fill"), view=b.view, target=unparse(n.func.value), subs=(), sub_vals=(), base=b, method=attr, mayc=b.mayc)
        return NONE
    if attr in REDUCTIONS or attr in ("dot", "cumsum", "nonzero", "solve", "item", "tolist", "matvec", "rmatvec", "multiply"):
        shape = None
        if attr in REDUCTIONS:
            shape = reduce_shape(b.shape, kwargs.get("axis", args[0] if args else None))
        kind = "num" if shape == () else "arr"
        if attr == "dot" and args and b.shape is not None and args[0].shape is not None:
            sa, sb = b.shape, args[0].shape
            if len(sa) == 2 and len(sb) == 1:
                shape = (sa[0],)
            elif len(sa) == 1 and len(sb) == 2:
                shape = (sb[1],)
            elif len(sa) == 2 and len(sb) == 2:
                shape = (sa[0], sb[1])
            elif len(sa) == 1 and len(sb) == 1:
                shape = ()
            kind = "num" if shape == () else "arr"
        it.emit("mcall", n, st, base=b, method=attr, args=args, kwargs=kwargs)
        return Val(kind, dep=bdep | d, cfg=b.cfg and c, shape=None if kind == "num" else shape, extra=("reduce", attr, b) if attr in REDUCTIONS else ("mcall", attr, b))
    it.emit("mcall", n, st, base=b, method=attr, args=args, kwargs=kwargs)
    return Val("unknown", dep=bdep | d, cfg=b.cfg and c)


def infer_reshape(new, old):
    if new is None:
        return None
    new = list(new)
    if any(x is not None and x == -1 for x in new):
        tot = prod(old)
        i = [j for j, x in enumerate(new) if x is not None and x == -1][0]
        rest = [x for j, x in enumerate(new) if j != i]
        if tot is not None and all(x is not None for x in rest):
            den = sp.Integer(1)
            for x in rest:
                den *= x
            q = sp.cancel(tot / den)
            new[i] = sp.expand(q) if q.is_polynomial() else None
        else:
            new[i] = None
    return tuple(new)


def reduce_shape(shape, axis):
    if axis is None or axis.kind == "none":
        return ()
    if shape is None:
        return None
    if axis.kind == "num" and axis.sym is not None and axis.sym.is_number:
        a = int(axis.sym)
        if a < 0:
            a += len(shape)
        if 0 <= a < len(shape):
            return tuple(x for i, x in enumerate(shape) if i != a)
    if axis.kind == "tuple" and axis.items is not None and all(x.kind == "num" and x.sym is not None and x.sym.is_number for x in axis.items):
        drop = {int(x.sym) % len(shape) for x in axis.items}
        return tuple(x for i, x in enumerate(shape) if i not in drop)
    return None


def einsum_shape(spec, ops):
    try:
        if "->" not in spec:
            return None
        lhs, rhs = spec.replace(" ", "").split("->")
        terms = lhs.split(",")
        if len(terms) != len(ops):
            return None
        dims = {}
        ell = None
        for t, o in zip(terms, ops):
            shp = o.shape
            if o.kind == "num" and shp is None:
                shp = ()
            if shp is None:
                continue
            if "..." in t:
                pre, post = t.split("...")
                k = len(shp) - len(pre) - len(post)
                if k < 0:
                    return None
                e = shp[len(pre): len(pre) + k]
                if ell is None or len(e) > len(ell):
                    ell = e
                letters = list(pre) + [None] * k + list(post)
            else:
                letters = list(t)
                if len(letters) != len(shp):
                    return None
            for l, dmn in zip(letters, shp):
                if l is not None and dmn is not None and l not in dims:
                    dims[l] = dmn
        out = []
        if "..." in rhs:
            pre, post = rhs.split("...")
            if ell is None:
                return None
            for l in pre:
                out.append(dims.get(l))
            out.extend(ell)
            for l in post:
                out.append(dims.get(l))
        else:
            for l in rhs:
                out.append(dims.get(l))
        return tuple(out)
    except Exception:
        return None


def concat_len(seq):
    if seq.kind not in ("list", "tuple") or seq.items is None:
        return None
    tot = sp.Integer(0)
    for x in seq.items:
        if x.shape is not None and len(x.shape) == 1 and x.shape[0] is not None:
            tot += x.shape[0]
        elif x.kind == "num" and x.shape is None:
            tot += 1
        else:
            return None
    return sp.expand(tot)


# ---------------------------------------------------------------------- externals
def ext_call(it, n, name, args, kwargs, st):
    d, c = deps(args, kwargs)
    hd = d
    for a in args:
        hd = hd | heap_dep(a, st)
    for a in kwargs.values():
        hd = hd | heap_dep(a, st)
    short = name.replace(":", ".").split(".")[-1]
    root = name.split(".")[0].split(":")[0]
    cx = None
    if c and all(a.cx for a in args) and not kwargs and sum(len(a.cx) for a in args) < 140:
        cx = "%s(%s)" % (short, ", ".join(a.cx for a in args))
    it.emit("extcall", n, st, name=name, args=args, kwargs=kwargs)

    if name.startswith("builtins."):
        return builtin_call(it, n, short, args, kwargs, st, hd, c, cx)
    if root == "warnings" or name.startswith("print"):
        return NONE
    if root == "copy":
        a = args[0] if args else UNKNOWN
        if a.kind in ("cfgdict", "cfglist"):
            return a
        return fresh(it, n, st, hd, c, a.shape, alloc="deepcopy", kind="arr" if a.kind in ("arr", "cfgval", "num") else a.kind)
    if root in ("numpy",):
        return numpy_call(it, n, name, short, args, kwargs, st, hd, c, cx)
    if root.startswith("scipy"):
        if short in ("lu_factor", "splu", "factorized", "inv"):
            return Val("obj", dep=hd, cfg=c, extra=("factor", short, args))
        if short in ("lu_solve", "spsolve", "solve"):
            shape = args[1].shape if len(args) > 1 else None
            return fresh(it, n, st, hd, c, shape, alloc=short, extra=("solve", short, args, kwargs))
        if short in ("coo_matrix", "csc_matrix", "csr_matrix", "diags", "block_diag", "bmat"):
            return fresh(it, n, st, hd, c, None, alloc=short, extra=("sparse", short, args, kwargs))
        return Val("unknown", dep=hd, cfg=c)
    if root == "openmdao":
        it.emit("construct", n, st, cls=name, args=args, kwargs=kwargs, src=unparse(n)[:300])
        return Val("instance", extra=("instance", name, kwargs, args), cfg=True, dep=hd)
    return Val("unknown", dep=hd, cfg=c, cx=cx)


def builtin_call(it, n, short, args, kwargs, st, hd, c, cx):
    a0 = args[0] if args else UNKNOWN
    if short == "len":
        if a0.kind in ("list", "tuple") and a0.items is not None and a0.obj is None:
            return num(len(a0.items))
        if a0.shape is not None and len(a0.shape) >= 1 and a0.shape[0] is not None:
            return num(a0.shape[0])
        if a0.kind == "cfglist":
            return num(sp.Symbol("n_" + a0.cx.replace("[", "_").replace("]", "").replace("'", ""), integer=True, positive=True), cx="len(%s)" % a0.cx)
        return Val("num", cfg=True, cx=("len(%s)" % a0.cx) if a0.cx else None, extra=("meta", "len", a0))
    if short in ("int", "float", "complex"):
        if a0.kind == "num":
            return a0.with_(obj=None, view=None, extra=("cast", short, a0))
        return Val("num", dep=hd, cfg=c, cx=cx, extra=("cast", short, a0))
    if short == "str":
        t = it.to_tmpl(a0)
        if t is not None:
            return Val("str", tmpl=t, cfg=True, cx=repr(t))
        return Val("str", dep=hd, cfg=c)
    if short == "range":
        lo, hi = sp.Integer(0), None
        if len(args) == 1:
            hi = args[0].sym if args[0].kind == "num" else None
        elif len(args) >= 2:
            lo = args[0].sym if args[0].kind == "num" else None
            hi = args[1].sym if args[1].kind == "num" else None
        return Val("range", extra=(lo, hi), cfg=c, dep=hd, cx=cx)
    if short in ("type", "isinstance", "hasattr", "callable", "id", "issubclass"):
        if short == "hasattr" and args and args[0].kind == "self" and len(args) > 1 and args[1].kind == "str":
            it.emit("state_test", n, st, attr=args[1].tmpl, how="hasattr")
            return Val("bool", cfg=False, extra=("hasattr", args[1].tmpl))
        return Val("unknown", cfg=True, cx=cx or "meta.%s" % short, extra=("meta", short, a0))
    if short in ("abs", "min", "max", "sum", "round", "pow", "divmod"):
        kind = "num" if all(a.kind == "num" for a in args) else "arr"
        sym = None
        if short == "abs" and a0.kind == "num" and a0.sym is not None and a0.sym.is_number:
            sym = sp.Abs(a0.sym)
        return Val(kind, dep=hd, cfg=c, cx=cx, sym=sym, extra=("builtin", short, args))
    if short in ("list", "tuple", "sorted", "reversed", "set", "dict", "enumerate", "zip", "iter", "next", "frozenset"):
        if short in ("list", "tuple") and a0.items is not None and isinstance(a0.items, (list, tuple)):
            return Val(short, items=(list if short == "list" else tuple)(a0.items), dep=hd, cfg=c)
        if short in ("set", "frozenset") and a0.items is not None and isinstance(a0.items, (list, tuple)) and all(x.kind == "str" and x.tmpl is not None for x in a0.items):
            # set of known strings: keep the (deduplicated) members so list(set([...])) stays a known list
            seen, items = set(), []
            for x in a0.items:
                if x.tmpl not in seen:
                    seen.add(x.tmpl)
                    items.append(x)
            return Val("list", items=items, dep=hd, cfg=c, extra=("from", short, a0))
        if short in ("set", "frozenset") and not args:
            return Val("list", items=[], cfg=True, extra=("from", short, None))
        if short == "sorted" and a0.items is not None and isinstance(a0.items, (list, tuple)) and all(x.kind == "str" and x.tmpl is not None for x in a0.items) and not kwargs:
            return Val("list", items=sorted(a0.items, key=lambda x: x.tmpl), dep=hd, cfg=c)
        if short == "dict" and not args:
            return Val("dict", items=dict(kwargs), cfg=c, dep=hd)
        if short == "list" and not args:
            return Val("list", items=[], cfg=True)
        return Val("list" if short != "dict" else "dict", dep=hd, cfg=c, extra=("from", short, a0))
    if short in ("print", "super", "getattr", "setattr", "vars", "repr", "open", "input", "exit", "format", "bool", "any", "all"):
        if short in ("bool", "any", "all"):
            return Val("bool", dep=hd, cfg=c, cx=cx)
        if short == "setattr":
            it.emit("setattr_call", n, st, args=args)
        return Val("unknown", dep=hd, cfg=c)
    if short in ("ValueError", "NameError", "TypeError", "RuntimeError", "KeyError", "Exception", "NotImplementedError", "AttributeError", "IndexError"):
        return Val("exc", extra=short, cfg=True)
    return Val("unknown", dep=hd, cfg=c, cx=cx)


def numpy_call(it, n, name, short, args, kwargs, st, hd, c, cx):
    a0 = args[0] if args else UNKNOWN
    sub = name.split(".")[1] if name.count(".") >= 2 else None
    if sub == "random":
        it.emit("random", n, st, name=name, args=args, kwargs=kwargs)
        return fresh(it, n, st, frozenset({"random:" + name}), False, None, alloc="random")
    if sub == "linalg":
        if short == "norm":
            shape = reduce_shape(a0.shape, kwargs.get("axis", args[2] if len(args) > 2 else None))
            return Val("num" if shape == () else "arr", dep=hd, cfg=c, shape=None if shape == () else shape, extra=("norm", args, kwargs))
        return fresh(it, n, st, hd, c, None, alloc="linalg." + short)
    if short in ALLOC:
        shape = shape_from_val(a0)
        dt = kwargs.get("dtype", args[1] if (short != "full" and len(args) > 1) else (args[2] if short == "full" and len(args) > 2 else None))
        fdep = frozenset()
        fcfg = True
        if short == "full" and len(args) > 1:
            fdep, fcfg = args[1].dep, args[1].cfg
        return fresh(it, n, st, fdep, fcfg, shape, alloc=(short, dt))
    if short in ALLOC_LIKE:
        dt = kwargs.get("dtype")
        return fresh(it, n, st, frozenset(), True, a0.shape, alloc=(short, dt, a0))
    if short in ("eye", "identity"):
        s = a0.sym if a0.kind == "num" else None
        return fresh(it, n, st, frozenset(), True, (s, s), alloc=(short, kwargs.get("dtype")))
    if short == "arange":
        lo, hi = sp.Integer(0), None
        if len(args) == 1:
            hi = a0.sym if a0.kind == "num" else None
        elif len(args) >= 2:
            lo = a0.sym if a0.kind == "num" else None
            hi = args[1].sym if args[1].kind == "num" else None
        ln = sp.expand(hi - lo) if (hi is not None and lo is not None and len(args) < 3) else None
        r = fresh(it, n, st, hd, c, (ln,), alloc="arange", extra=("arange", lo, hi))
        if lo is not None and hi is not None and len(args) < 3:
            r.dom["IDXR"] = (lo, hi)
        return r
    if short == "linspace":
        nn = kwargs.get("num", args[2] if len(args) > 2 else None)
        ln = nn.sym if (nn is not None and nn.kind == "num") else (sp.Integer(50) if nn is None else None)
        return fresh(it, n, st, hd, c, (ln,), alloc="linspace")
    if short == "array":
        shape = None
        if a0.kind in ("list", "tuple") and a0.items is not None:
            inner = None
            ok = True
            for x in a0.items:
                s = () if (x.kind == "num" and x.shape is None) else x.shape
                if s is None:
                    ok = False
                    break
                if inner is None:
                    inner = s
                elif inner != s:
                    ok = False
            if ok and inner is not None:
                shape = (sp.Integer(len(a0.items)),) + tuple(inner)
            elif ok and not a0.items:
                shape = (sp.Integer(0),)
        elif a0.kind in ("arr", "cfgval"):
            shape = a0.shape
        elif a0.kind == "num":
            shape = ()
        return fresh(it, n, st, hd, c, shape, alloc=("array", kwargs.get("dtype"), a0), extra=("array", a0))
    if short in ("tile", "repeat"):
        reps = args[1] if len(args) > 1 else kwargs.get("reps", kwargs.get("repeats"))
        shape = None
        sz = size_of(a0)
        ax = kwargs.get("axis", args[2] if len(args) > 2 else None)
        if reps is not None and reps.kind == "num" and reps.sym is not None and sz is not None and ax is None:
            if short == "repeat" or a0.shape is None or len(a0.shape) <= 1:
                shape = (sp.expand(sz * reps.sym),)
        elif reps is not None and reps.kind in ("tuple", "list") and reps.items is not None and short == "tile" and a0.shape is not None:
            rs = [x.sym if x.kind == "num" else None for x in reps.items]
            shp = list(a0.shape)
            while len(shp) < len(rs):
                shp.insert(0, sp.Integer(1))
            while len(rs) < len(shp):
                rs.insert(0, sp.Integer(1))
            shape = tuple((sp.expand(a * b) if (a is not None and b is not None) else None) for a, b in zip(shp, rs))
        return fresh(it, n, st, hd, c, shape, alloc=short, extra=(short, a0, reps))
    if short in ("concatenate", "hstack", "append", "vstack", "stack", "block", "column_stack", "dstack"):
        seq = a0
        if short == "append":
            seq = Val("tuple", items=tuple(args[:2]))
        ax = kwargs.get("axis", args[1] if (short == "concatenate" and len(args) > 1) else None)
        shape = None
        if short in ("concatenate", "hstack", "append") and (ax is None or (ax.kind == "num" and ax.sym == 0)):
            ln = concat_len(seq)
            if ln is not None:
                shape = (ln,)
        return fresh(it, n, st, hd, c, shape, alloc=short, extra=("concat", seq))
    if short in VIEW_FUNCS:
        shape = None
        if short == "reshape":
            sv = args[1] if len(args) > 1 else kwargs.get("newshape", kwargs.get("shape"))
            shape = infer_reshape(shape_from_val(sv), a0.shape) if sv is not None else None
        elif short == "ravel":
            p = prod(a0.shape)
            shape = (p,) if p is not None else None
        elif short == "atleast_2d":
            if a0.shape is not None:
                shape = a0.shape if len(a0.shape) >= 2 else ((sp.Integer(1),) + tuple(a0.shape) if len(a0.shape) == 1 else (sp.Integer(1), sp.Integer(1)))
            elif a0.kind == "num":
                shape = (sp.Integer(1), sp.Integer(1))
        elif short in ("flip", "flipud", "fliplr", "real", "imag", "asarray", "asanyarray"):
            shape = a0.shape
        elif short == "squeeze" and a0.shape is not None:
            shape = tuple(x for x in a0.shape if not (x is not None and x == 1))
        elif short == "transpose" and a0.shape is not None and len(args) == 1 and not kwargs:
            shape = tuple(reversed(a0.shape))
        elif short == "broadcast_to":
            shape = shape_from_val(args[1]) if len(args) > 1 else None
        if a0.obj is not None:
            return Val("arr", dep=heap_dep(a0, st) | hd, cfg=a0.cfg and c, shape=shape, obj=a0.obj, view="reshape" if short not in ("asarray", "asanyarray", "real") else a0.view, dom=dict(a0.dom), extra=("viewfn", short, a0), mayc=a0.mayc)
        kind = "num" if (a0.kind == "num" and short in ("real", "imag", "asarray") and a0.shape is None) else "arr"
        return Val(kind, dep=hd, cfg=c, shape=shape, sym=a0.sym if (kind == "num" and short == "real") else None, cx=cx, extra=("viewfn", short, a0), mayc=a0.mayc)
    if short in REDUCTIONS:
        shape = reduce_shape(a0.shape, kwargs.get("axis", args[1] if len(args) > 1 else None))
        if a0.kind == "num" and a0.shape is None:
            shape = ()
        kind = "num" if shape == () else "arr"
        return Val(kind, dep=hd, cfg=c, shape=None if kind == "num" else shape, cx=cx, extra=("reduce", short, a0, kwargs))
    if short == "einsum":
        spec = a0.tmpl if a0.kind == "str" else None
        shape = einsum_shape(spec, args[1:]) if spec else None
        return Val("num" if shape == () else "arr", dep=hd, cfg=c, shape=None if shape == () else shape, extra=("einsum", spec, args[1:]))
    if short in ELEMENTWISE:
        shape = a0.shape
        for a in args[1:]:
            if a.kind != "num" or a.shape is not None:
                shape = it.bshape(Val("arr", shape=shape) if shape is not None else a0, a)
        outv = kwargs.get("out")
        if outv is not None and outv.obj is not None:
            o = st.heap.get(outv.obj) or st.heap.setdefault(outv.obj, Obj(outv.obj))
            o.dep |= hd | st.ctrl
            it.emit("store", n, st, obj=outv.obj, cell=outv.obj if isinstance(outv.obj, tuple) and outv.obj[0] in ("in", "out", "res", "partials", "self", "cfg", "global") else None, op="out=", val=a0, dep=hd | st.ctrl, region=None, whole=False, view=outv.view, target=unparse(n)[:80], subs=(), sub_vals=(), base=outv, method="out=", mayc=outv.mayc)
        kind = "num" if all((a.kind == "num" and a.shape is None) for a in args) else "arr"
        sym = None
        if kind == "num" and len(args) == 1 and a0.sym is not None and c:
            fn = {"sqrt": sp.sqrt, "sin": sp.sin, "cos": sp.cos, "tan": sp.tan, "exp": sp.exp, "log": sp.log, "abs": sp.Abs, "arctan": sp.atan, "arccos": sp.acos, "real": lambda x: x, "floor": sp.floor, "ceil": sp.ceiling}.get(short)
            if fn is not None:
                try:
                    sym = fn(a0.sym)
                except Exception:
                    sym = None
        return Val(kind, dep=hd, cfg=c, shape=None if kind == "num" else shape, sym=sym, cx=cx, extra=("ufunc", short, args, kwargs))
    if short in ("outer",):
        sa, sb = size_of(a0), size_of(args[1]) if len(args) > 1 else None
        return Val("arr", dep=hd, cfg=c, shape=(sa, sb), extra=("outer", args))
    if short in ("cross",):
        shape = it.bshape(a0, args[1]) if len(args) > 1 else None
        return Val("arr", dep=hd, cfg=c, shape=shape, extra=("cross", args, kwargs))
    if short in ("dot", "matmul", "inner", "tensordot", "kron", "vdot"):
        shape = None
        b = args[1] if len(args) > 1 else UNKNOWN
        if short in ("dot", "matmul") and a0.shape is not None and b.shape is not None:
            if len(a0.shape) == 2 and len(b.shape) == 1:
                shape = (a0.shape[0],)
            elif len(a0.shape) == 1 and len(b.shape) == 2:
                shape = (b.shape[1],)
            elif len(a0.shape) == 2 and len(b.shape) == 2:
                shape = (a0.shape[0], b.shape[1])
            elif len(a0.shape) == 1 and len(b.shape) == 1:
                shape = ()
        return Val("num" if shape == () else "arr", dep=hd, cfg=c, shape=None if shape == () else shape, extra=(short, args))
    if short in ("interp",):
        return Val("arr", dep=hd, cfg=c, shape=a0.shape, extra=("interp", args))
    if short in ("where",):
        if len(args) == 3:
            # data-dependent selection between two values: the expression-level form of an if
            it.emit("select", n, st, dep=args[0].dep, pred=unparse(n.args[0])[:100] if n.args else "")
        shape = args[1].shape if len(args) > 1 else None
        return Val("arr", dep=hd, cfg=c, shape=shape, extra=("where", args))
    if short in ("diff",):
        shape = None
        if a0.shape is not None and len(a0.shape) == 1 and a0.shape[0] is not None:
            shape = (a0.shape[0] - 1,)
        return Val("arr", dep=hd, cfg=c, shape=shape, extra=("diff", args, kwargs))
    if short in ("diag", "delete", "insert", "indices", "meshgrid", "ravel_multi_index", "unravel_index", "cumsum", "sort", "argsort", "unique", "nonzero", "triu", "tril", "roll", "trace", "isclose", "allclose", "array_equal", "polyfit", "polyval", "cumprod", "searchsorted", "histogram", "floor_divide", "mod", "logical_and", "logical_or", "logical_not", "array_str", "load", "save", "loadtxt", "savetxt", "copyto", "fill_diagonal", "put", "place", "add.at"):
        if short in ("copyto", "fill_diagonal", "put", "place"):
            tgt = a0
            if tgt.obj is not None:
                o = st.heap.get(tgt.obj) or st.heap.setdefault(tgt.obj, Obj(tgt.obj))
                if short == "copyto" and tgt.view == "whole":
                    o.dep = set(hd | st.ctrl)
                else:
                    o.dep |= hd | st.ctrl
                o.stored = True
            it.emit("store", n, st, obj=tgt.obj, cell=tgt.obj if isinstance(tgt.obj, tuple) and tgt.obj[0] in ("in", "out", "res", "partials", "self", "cfg", "global") else None, op="=" if short == "copyto" else "inplace:" + short, val=args[1] if len(args) > 1 else UNKNOWN, dep=hd | st.ctrl, region="whole" if (short == "copyto" and tgt.view == "whole") else None, whole=(short == "copyto" and tgt.view == "whole"), view=tgt.view, target=unparse(n)[:80], subs=(), sub_vals=(), base=tgt, method=short, mayc=tgt.mayc)
            return NONE
        if short in ("isclose", "allclose", "array_equal"):
            return Val("bool", dep=hd, cfg=c, cx=cx)
        if short in ("indices", "meshgrid", "nonzero", "unravel_index"):
            return Val("tuple", dep=hd, cfg=c, items=None)
        return fresh(it, n, st, hd, c, None, alloc=short)
    if short in ("shape", "size", "ndim"):
        return Val("unknown", cfg=True, cx=cx or "meta." + short, extra=("meta", short, a0))
    if short in ("iscomplexobj", "isrealobj", "isscalar", "issubdtype", "iscomplex", "isreal"):
        return Val("bool", cfg=True, cx=cx or ("meta.%s@%d" % (short, n.lineno)), extra=("meta", short, a0))
    if short in ("errstate", "seterr", "set_printoptions", "printoptions"):
        return Val("unknown", cfg=True)
    return Val("arr", dep=hd, cfg=c, cx=cx, extra=("np", short, args))
